// gosx: bounded symbolic execution of a Go harness over go/ssa with an SMT solver.
package main

import (
	"encoding/json"
	"flag"
	"fmt"
	"os"
	"path/filepath"
	"strings"
	"time"

	"verif/gosx/gosx"
)

func main() {
	var (
		repo     = flag.String("repo", "/repo", "repository root (module root)")
		pkgPat   = flag.String("pkg", "", "package directory relative to repo in which the harness lives, e.g. pkg/sql/tokenizer")
		hdir     = flag.String("harness-dir", "/verif/harness", "directory tree of harness files (overlaid onto the repo)")
		harness  = flag.String("harness", "", "harness function name")
		workers  = flag.Int("workers", 16, "parallel workers")
		maxSteps = flag.Int("max-steps", 3000000, "instruction budget per path (unwinding assertion)")
		maxDepth = flag.Int("max-depth", 3000, "call depth budget")
		maxPaths = flag.Int("max-paths", 0, "stop after this many paths (0 = exhaustive)")
		timeLim  = flag.Duration("time-limit", 0, "stop after this wall time (0 = none)")
		solver   = flag.String("solver", "z3 -in", "solver command")
		solverTO = flag.Int("solver-timeout-ms", 20000, "per-query timeout")
		out      = flag.String("out", "", "write JSON result here")
		replace  = flag.String("replace", "", "comma-separated pkg.Func=HarnessFunc replacements")
		cut      = flag.String("cut-at", "", "comma-separated functions that end a path when reached")
		qlog     = flag.String("query-log", "", "write assertion queries (smt2) to this path prefix")
		samples  = flag.Int("samples", 8, "path samples to keep")
		trace    = flag.Bool("trace", false, "trace calls")
		ovExtra  = flag.String("overlay-extra", "", "comma-separated virtual=real file pairs added to the overlay (instantiated sources)")
	)
	flag.Parse()
	cfg := gosx.Config{
		Harness: *harness, Workers: *workers, MaxSteps: *maxSteps, MaxDepth: *maxDepth,
		MaxPaths: *maxPaths, TimeLimit: *timeLim, SolverArgv: strings.Fields(*solver), SolverTO: *solverTO,
		QueryLogPath: *qlog, KeepSamples: *samples, Trace: *trace, Replace: map[string]string{},
	}
	for _, r := range strings.Split(*replace, ",") {
		if r == "" {
			continue
		}
		kv := strings.SplitN(r, "=", 2)
		cfg.Replace[kv[0]] = kv[1]
	}
	for _, c := range strings.Split(*cut, ",") {
		if c != "" {
			cfg.CutAt = append(cfg.CutAt, c)
		}
	}
	t0 := time.Now()
	overlay, err := gosx.BuildOverlay(*repo, *hdir)
	if err != nil {
		fatal(err)
	}
	for _, kv := range strings.Split(*ovExtra, ",") {
		if kv == "" {
			continue
		}
		p := strings.SplitN(kv, "=", 2)
		b, err := os.ReadFile(p[1])
		if err != nil {
			fatal(err)
		}
		overlay[p[0]] = b
	}
	prog, pkg, err := gosx.Load(*repo, *pkgPat, overlay)
	if err != nil {
		fatal(err)
	}
	loadS := time.Since(t0).Seconds()
	ex, err := gosx.NewExplorer(prog, pkg, cfg)
	if err != nil {
		fatal(err)
	}
	stats, viols, samp := ex.Run()
	res := map[string]interface{}{
		"harness":    *harness,
		"pkg":        *pkgPat,
		"load_s":     loadS,
		"stats":      stats,
		"violations": viols,
		"samples":    samp,
		"functions":  ex.FunctionsEncoded(),
	}
	b, _ := json.MarshalIndent(res, "", " ")
	if *out != "" {
		os.MkdirAll(filepath.Dir(*out), 0755)
		if err := os.WriteFile(*out, b, 0644); err != nil {
			fatal(err)
		}
	} else {
		os.Stdout.Write(b)
		fmt.Println()
	}
	if os.Getenv("GOSX_DEBUG") != "" {
		fmt.Fprintf(os.Stderr, "phases: build+write=%v check-sat=%v\n", gosx.PhaseBuild, gosx.PhaseSat)
	}
	fmt.Fprintf(os.Stderr, "gosx %s: paths=%d %v viol=%d queries=%d (sat %d unsat %d unknown %d) solver=%.1fs wall=%.1fs exhausted=%v\n",
		*harness, stats.Paths, stats.ByStatus, len(viols), stats.Queries, stats.Sat, stats.Unsat, stats.Unknown, stats.SolverTimeS, stats.WallS, stats.Exhausted)
}

func fatal(err error) {
	fmt.Fprintln(os.Stderr, "gosx:", err)
	os.Exit(2)
}
