package gosx

// The harness API (package .../zzvx) as seen by the engine. The same package has
// native bodies (tape-driven) used for replay and translator validation.

import (
	"fmt"
	"go/token"
	"go/types"
	"os"
	"strings"
	"unsafe"

	"golang.org/x/tools/go/ssa"
)

func ptrBits(p *value) uintptr { return uintptr(unsafe.Pointer(p)) }

var vxFuncs map[string]externalFn

func init() {
	scalar := func(k types.BasicKind) externalFn {
		return func(fr *frame, a []value) value { return fr.i.newVar(k) }
	}
	vxFuncs = map[string]externalFn{
		"Byte":   scalar(types.Uint8),
		"Bool":   scalar(types.Bool),
		"Int":    scalar(types.Int),
		"Int64":  scalar(types.Int64),
		"Int32":  scalar(types.Int32),
		"Uint16": scalar(types.Uint16),
		"Uint32": scalar(types.Uint32),
		"Uint64": scalar(types.Uint64),
		"Rune":   scalar(types.Int32),
		// Small(n): symbolic int in [0,n) kept symbolic (16-bit variable)
		"Small": func(fr *frame, a []value) value {
			i := fr.i
			n := i.concInt(a[0])
			v := i.ts.Var(16)
			i.domains[int(v.val)] = int(n)
			i.hardAssume = true
			i.assume(lower(types.Bool, i.ts.Cmp(OpUlt, v, i.ts.Const(16, uint64(n)))))
			i.hardAssume = false
			return lower(types.Int, i.ts.ZExt(v, 64))
		},
		// Choice(n): int in [0,n), concretised by forking
		"Choice": func(fr *frame, a []value) value {
			i := fr.i
			n := i.concInt(a[0])
			if n <= 0 {
				panic(pathAbort{"infeasible", "Choice(0)"})
			}
			if n == 1 {
				// still consume a tape slot so native replay stays aligned
				i.ts.Var(16)
				return 0
			}
			v := i.ts.Var(16)
			i.assume(lower(types.Bool, i.ts.Cmp(OpUlt, v, i.ts.Const(16, uint64(n)))))
			return int(i.concretize(sym{types.Uint16, v}))
		},
		"Bytes": func(fr *frame, a []value) value {
			i := fr.i
			n := int(i.concInt(a[0]))
			out := make([]value, n)
			for k := range out {
				out[k] = i.newVar(types.Uint8)
			}
			return out
		},
		"Assume": func(fr *frame, a []value) value {
			fr.i.assume(a[0])
			return nil
		},
		"Assert": func(fr *frame, a []value) value {
			fr.i.assert(fr.i.concString(a[0]), a[1], "")
			return nil
		},
		"Assertf": func(fr *frame, a []value) value {
			i := fr.i
			id := i.concString(a[0])
			// the message is rendered only for a counterexample, under its model
			i.pendingMsg = &noteRec{format: i.concString(a[2]), args: a[3].([]value)}
			i.assert(id, a[1], "")
			i.pendingMsg = nil
			return nil
		},
		"Fail": func(fr *frame, a []value) value {
			fr.i.assert(fr.i.concString(a[0]), false, fr.i.showString(a[1]))
			return nil
		},
		"Note": func(fr *frame, a []value) value {
			i := fr.i
			if len(i.notes) < 1000 {
				i.notes = append(i.notes, noteRec{format: "%s", args: []value{iface{t: types.Typ[types.String], v: a[0]}}})
			}
			return nil
		},
		"Notef": func(fr *frame, a []value) value {
			i := fr.i
			if len(i.notes) < 1000 {
				args := a[1].([]value)
				cp := make([]value, len(args))
				for k, x := range args {
					// snapshot slices so later mutation does not change the note
					if itf, ok := x.(iface); ok {
						if sl, ok := itf.v.([]value); ok {
							c := make([]value, len(sl))
							for j := range sl {
								c[j] = copyVal(sl[j])
							}
							x = iface{t: itf.t, v: c}
						}
					}
					cp[k] = x
				}
				i.notes = append(i.notes, noteRec{format: i.concString(a[0]), args: cp})
			}
			return nil
		},
		"RaceMonitor": func(fr *frame, a []value) value {
			fr.i.race = newRaceState(fr.i.concString(a[0]))
			return nil
		},
		"Or":  func(fr *frame, a []value) value { return fr.i.orV(a[0], a[1]) },
		"And": func(fr *frame, a []value) value { return fr.i.andV(a[0], a[1]) },
		"PickStr": func(fr *frame, a []value) value {
			i := fr.i
			tab := a[1].([]value)
			ss := make([]string, len(tab))
			for k, e := range tab {
				ss[k] = i.concString(e)
			}
			switch s := a[0].(type) {
			case sym:
				t := s.t
				var sel *Term
				if t.op == OpZExt && t.a.w == 16 {
					sel = t.a
				} else {
					sel = i.ts.Extract(i.asTerm64(s), 0, 16)
				}
				return &fdstr{sel: sel, tab: ss}
			default:
				k := asInt64(s)
				if k < 0 || int(k) >= len(ss) {
					panic(targetPanic{i.runtimeError("PickStr index out of range")})
				}
				return ss[k]
			}
		},
		"PickInt": func(fr *frame, a []value) value {
			i := fr.i
			tab := a[1].([]value)
			switch s := a[0].(type) {
			case sym:
				var sel *Term
				if s.t.op == OpZExt && s.t.a.w == 16 {
					sel = s.t.a
				} else {
					sel = i.ts.Extract(i.asTerm64(s), 0, 16)
				}
				vals := make([]int64, len(tab))
				for k := range tab {
					vals[k] = asInt64(tab[k])
				}
				acc := i.selectInt(sel, vals)
				if acc.IsConst() {
					return int(acc.ConstVal())
				}
				if i.fdInts == nil {
					i.fdInts = map[*Term]*fdIntInfo{}
				}
				info := &fdIntInfo{tab: make([]int64, len(tab))}
				for k := range tab {
					info.tab[k] = asInt64(tab[k])
				}
				info.sel = sel
				i.fdInts[acc] = info
				return lower(types.Int, acc)
			default:
				k := asInt64(s)
				if k < 0 || int(k) >= len(tab) {
					panic(targetPanic{i.runtimeError("PickInt index out of range")})
				}
				return int(asInt64(tab[k]))
			}
		},
		// Conc(s): force a concrete string (forks)
		"Conc": func(fr *frame, a []value) value { return fr.i.concString(a[0]) },
		// ConcInt(n): force a concrete int (forks)
		"ConcInt": func(fr *frame, a []value) value { return int(fr.i.concInt(a[0])) },
		"PoolGC": func(fr *frame, a []value) value {
			i := fr.i
			for _, ps := range i.pools {
				ps := ps
				old := ps.items
				ps.items = nil
				if i.epoch {
					i.undoFns = append(i.undoFns, func() { ps.items = old })
				}
			}
			return nil
		},
		"MapOrderReverse": func(fr *frame, a []value) value {
			fr.i.mapRev = a[0].(bool)
			return nil
		},
		"Freeze":          vxFreeze,
		"Unfreeze":        func(fr *frame, a []value) value { fr.i.frozen = nil; return nil },
		"Engine":          func(fr *frame, a []value) value { return true },
		"WatchReentry":    vxWatchReentry,
		"Steps":           func(fr *frame, a []value) value { return fr.i.steps },
		"WatchReentryAll": vxWatchReentryAll,
		"ReentryLimit": func(fr *frame, a []value) value {
			fr.i.reentryLimit = fr.i.concInt(a[0])
			fr.i.reentryLimitID = fr.i.concString(a[1])
			return nil
		},
		"BytesSymLen":     vxBytesSymLen,
		"DeepEqual":       vxDeepEqual,
		"Reach":           vxReach,
		"SameObject":      vxSameObject,
		"IsNilPtr":        vxIsNilPtr,
		"Fill":            vxFill,
		"FillAll":         vxFillAll,
		"FillOne":         vxFillOne,
		"FillOneOf":       vxFillOneOf,
		"Dump":            vxDump,
	}
}

// ---------------------------------------------------------------------------
// Freeze: every cell reachable from v becomes read-only until Unfreeze.

func vxFreeze(fr *frame, a []value) value {
	i := fr.i
	what := i.concString(a[1])
	if i.frozen == nil {
		i.frozen = map[*value]string{}
	}
	seen := map[*value]bool{}
	var walk func(v value)
	walkCell := func(p *value) {
		if p == nil || seen[p] {
			return
		}
		seen[p] = true
		i.frozen[p] = what
		walk(*p)
	}
	walk = func(v value) {
		switch x := v.(type) {
		case *value:
			walkCell(x)
		case iface:
			walk(x.v)
		case structure:
			for k := range x {
				walkCell(&x[k])
			}
		case array:
			for k := range x {
				walkCell(&x[k])
			}
		case []value:
			full := x[:cap(x)]
			for k := range x {
				walkCell(&full[k])
			}
		case *gmap:
			if x != nil {
				for k := range x.entries {
					walk(x.entries[k].val)
				}
			}
		}
	}
	walk(a[0])
	return nil
}

func (i *interpreter) frozenWrite(addr *value, what string, nv value) {
	// writing an identical scalar value is still a write; report it
	id := what
	if k := strings.IndexByte(what, ' '); k > 0 {
		id = what[:k]
	}
	i.assert(id, false, fmt.Sprintf("write into frozen %s (old=%s new=%s) at %s", what, strings.TrimSpace(toString(*addr)), strings.TrimSpace(toString(nv)), i.where()))
	delete(i.frozen, addr)
}

// ---------------------------------------------------------------------------
// Re-entry monitor (C02): on every re-entry of a watched function while an
// activation of it is live, the named int field of the receiver must have grown.

type reentryMonitor struct {
	fnSuffix string
	field    string
	live     []int64 // measure at entry of each live activation
	id       string
}

func vxWatchReentry(fr *frame, a []value) value {
	i := fr.i
	m := &reentryMonitor{fnSuffix: i.concString(a[0]), field: i.concString(a[1]), id: i.concString(a[2])}
	i.monitor = m
	measure := func(f *frame) (int64, bool) {
		if len(f.fn.Params) == 0 {
			return 0, false
		}
		recv, ok := f.env[f.fn.Params[0]].(*value)
		if !ok || recv == nil {
			return 0, false
		}
		pt, ok := f.fn.Params[0].Type().Underlying().(*types.Pointer)
		if !ok {
			return 0, false
		}
		st, ok := pt.Elem().Underlying().(*types.Struct)
		if !ok {
			return 0, false
		}
		for k := 0; k < st.NumFields(); k++ {
			if st.Field(k).Name() == m.field {
				return i.concInt((*recv).(structure)[k]), true
			}
		}
		return 0, false
	}
	i.onEnter = func(f *frame) {
		if !strings.HasSuffix(f.fn.String(), m.fnSuffix) {
			return
		}
		cur, ok := measure(f)
		if !ok {
			return
		}
		if n := len(m.live); n > 0 {
			i.assert(m.id, cur > m.live[n-1], fmt.Sprintf("%s re-entered with %s=%d (outer activation entered with %d)", f.fn.String(), m.field, cur, m.live[n-1]))
		}
		m.live = append(m.live, cur)
	}
	i.onLeave = func(f *frame) {
		if !strings.HasSuffix(f.fn.String(), m.fnSuffix) {
			return
		}
		if n := len(m.live); n > 0 {
			m.live = m.live[:n-1]
		}
	}
	return nil
}

// ---------------------------------------------------------------------------
// Structural helpers over the engine heap.

// vxDeepEqual(a, b any) bool: structural equality following pointers; the result
// is a term when leaves are symbolic.
func vxDeepEqual(fr *frame, a []value) value {
	i := fr.i
	type pair struct{ x, y *value }
	seen := map[pair]bool{}
	var eq func(x, y value) value
	eq = func(x, y value) value {
		switch xv := x.(type) {
		case iface:
			yv, ok := y.(iface)
			if !ok {
				return false
			}
			if !sameType(xv.t, yv.t) {
				return false
			}
			if xv.t == nil {
				return true
			}
			return eq(xv.v, yv.v)
		case *value:
			yv, ok := y.(*value)
			if !ok {
				return false
			}
			if xv == nil || yv == nil {
				return xv == nil && yv == nil
			}
			if xv == yv || seen[pair{xv, yv}] {
				return true
			}
			seen[pair{xv, yv}] = true
			return eq(*xv, *yv)
		case structure:
			yv, ok := y.(structure)
			if !ok || len(xv) != len(yv) {
				return false
			}
			var acc value = true
			for k := range xv {
				acc = i.andV(acc, eq(xv[k], yv[k]))
				if acc == false {
					return false
				}
			}
			return acc
		case array:
			yv, ok := y.(array)
			if !ok || len(xv) != len(yv) {
				return false
			}
			var acc value = true
			for k := range xv {
				acc = i.andV(acc, eq(xv[k], yv[k]))
				if acc == false {
					return false
				}
			}
			return acc
		case []value:
			yv, ok := y.([]value)
			if !ok || len(xv) != len(yv) {
				return false
			}
			var acc value = true
			for k := range xv {
				acc = i.andV(acc, eq(xv[k], yv[k]))
				if acc == false {
					return false
				}
			}
			return acc
		case *gmap:
			yv, ok := y.(*gmap)
			if !ok {
				return false
			}
			if xv.len() != yv.len() {
				return false
			}
			var acc value = true
			if xv != nil {
				for _, e := range xv.entries {
					if e.deleted {
						continue
					}
					ov, found := yv.lookup(i, e.key)
					if !found {
						return false
					}
					acc = i.andV(acc, eq(e.val, ov))
				}
			}
			return acc
		case *ssa.Function:
			yv, ok := y.(*ssa.Function)
			return ok && xv == yv
		case *closure:
			yv, ok := y.(*closure)
			return ok && xv.Fn == yv.Fn
		case nil:
			return y == nil
		}
		if isStr(x) {
			if !isStr(y) {
				return false
			}
			return i.strEq(x, y)
		}
		if _, _, ok := kindOf(x); ok || isSym(x) {
			if _, _, ok2 := kindOf(y); !ok2 && !isSym(y) {
				return false
			}
			return i.equalsV(nil, x, y)
		}
		switch x.(type) {
		case float32, float64:
			return x == y
		}
		return fmt.Sprintf("%T", x) == fmt.Sprintf("%T", y)
	}
	return eq(a[0], a[1])
}

func vxSameObject(fr *frame, a []value) value {
	x, y := a[0].(iface), a[1].(iface)
	px, ok1 := x.v.(*value)
	py, ok2 := y.v.(*value)
	return ok1 && ok2 && px == py && px != nil
}

func vxIsNilPtr(fr *frame, a []value) value {
	x := a[0].(iface)
	if x.t == nil {
		return true
	}
	switch p := x.v.(type) {
	case *value:
		return p == nil
	case []value:
		return p == nil
	case *gmap:
		return p == nil
	}
	return false
}

// fdIntInfo remembers that an integer term is table[sel] (finite domain), so that
// pure functions of it can be lifted row-wise instead of forking.
type fdIntInfo struct {
	sel *Term
	tab []int64
}

// liftPure evaluates a pure string-valued method of a finite-domain integer on
// every table row (concretely, by the real code) and returns a finite-domain string.
func (i *interpreter) liftPure(fr *frame, fn *ssa.Function, recv sym) (value, bool) {
	info, ok := i.fdInts[recv.t]
	if !ok {
		return nil, false
	}
	tab := make([]string, len(info.tab))
	for k, v := range info.tab {
		key := fmt.Sprintf("%s/%d", fn.String(), v)
		if s, ok := i.ex.liftCache.Load(key); ok {
			tab[k] = s.(string)
			continue
		}
		r := i.liftedCall(fr, fn, []value{mkScalar(recv.k, uint64(v))})
		s, ok := r.(string)
		if !ok {
			return nil, false
		}
		i.ex.liftCache.Store(key, s)
		tab[k] = s
	}
	return &fdstr{sel: info.sel, tab: tab}, true
}

// liftPureStr lifts a pure string-valued function with exactly one finite-domain
// string argument (all others concrete): the real code runs once per table row.
func (i *interpreter) liftPureStr(fr *frame, fn *ssa.Function, args []value) (value, bool) {
	if debugOn {
		fmt.Fprintf(os.Stderr, "gosx: liftPureStr %s args=%s\n", fn.Name(), toString(tuple(args)))
	}
	var fd *fdstr
	for _, a := range args {
		switch x := a.(type) {
		case *fdstr:
			if fd != nil && (fd.sel != x.sel || len(fd.tab) != len(x.tab)) {
				return nil, false
			}
			fd = x
		case sym, *symstr:
			if debugOn {
				fmt.Fprintf(os.Stderr, "gosx: no lift of %s: arg %T\n", fn, a)
			}
			return nil, false
		}
	}
	if fd == nil {
		return nil, false
	}
	tab := make([]string, len(fd.tab))
	for k := range fd.tab {
		key := fn.String() + "/"
		cp := append([]value(nil), args...)
		for j, a := range args {
			if x, ok := a.(*fdstr); ok {
				cp[j] = x.tab[k]
			}
			key += fmt.Sprintf("%q|", fmt.Sprint(cp[j]))
		}
		if s, ok := i.ex.liftCache.Load(key); ok {
			tab[k] = s.(string)
			continue
		}
		r := i.liftedCall(fr, fn, cp)
		s, ok := r.(string)
		if !ok {
			if debugOn {
				fmt.Fprintf(os.Stderr, "gosx: no lift of %s: result %T\n", fn, r)
			}
			return nil, false
		}
		i.ex.liftCache.Store(key, s)
		tab[k] = s
	}
	return &fdstr{sel: fd.sel, tab: tab}, true
}

func (i *interpreter) liftedCall(fr *frame, fn *ssa.Function, args []value) value {
	i.lifting++
	saved := i.steps
	i.steps = -(1 << 40) // row-wise evaluation of a pure callee does not count against the path budget
	defer func() { i.lifting--; i.steps = saved }()
	return callSSAraw(i, fr, fn, args)
}

// vxWatchReentryAll(recvType, field, id): for every method whose receiver is a
// pointer to the named struct type: whenever the method is entered while another
// activation of the same method is live, the int field of the receiver must be
// strictly greater than it was when that outer activation was entered.
func vxWatchReentryAll(fr *frame, a []value) value {
	i := fr.i
	recvName, field, id := i.concString(a[0]), i.concString(a[1]), i.concString(a[2])
	live := map[*ssa.Function][]value{}
	fieldIdx := map[*ssa.Function]int{}
	watched := func(f *frame) (int, bool) {
		if k, ok := fieldIdx[f.fn]; ok {
			return k, k >= 0
		}
		k := -1
		if len(f.fn.Params) > 0 && f.fn.Signature.Recv() != nil {
			if pt, ok := f.fn.Params[0].Type().Underlying().(*types.Pointer); ok {
				if nt, ok := pt.Elem().(*types.Named); ok && nt.Obj().Name() == recvName {
					if st, ok := nt.Underlying().(*types.Struct); ok {
						for j := 0; j < st.NumFields(); j++ {
							if st.Field(j).Name() == field {
								k = j
							}
						}
					}
				}
			}
		}
		fieldIdx[f.fn] = k
		return k, k >= 0
	}
	i.onEnter = func(f *frame) {
		k, ok := watched(f)
		if !ok {
			return
		}
		recv, ok := f.env[f.fn.Params[0]].(*value)
		if !ok || recv == nil {
			return
		}
		cur := (*recv).(structure)[k]
		if debugOn {
			fmt.Fprintf(os.Stderr, "enter %s live=%d\n", f.fn.Name(), len(live[f.fn]))
		}
		if st := live[f.fn]; len(st) > 0 {
			prev := st[len(st)-1]
			gt := i.binop(token.GTR, nil, cur, prev)
			i.pendingMsg = &noteRec{format: "%s", args: []value{iface{t: types.Typ[types.String], v: f.fn.Name() + " re-entered while active without increasing " + field}}}
			i.assert(id, gt, "")
			i.pendingMsg = nil
			if i.reentryLimitID != "" {
				// a completed cycle contains an increment followed by a limit check, so the outer
				// activation must have been entered strictly below the limit
				below := i.binop(token.LSS, nil, prev, int(i.reentryLimit))
				i.pendingMsg = &noteRec{format: "%s", args: []value{iface{t: types.Typ[types.String], v: f.fn.Name() + " re-entered although the active activation was entered at or above the nesting limit (no limit check on this cycle)"}}}
				i.assert(i.reentryLimitID, below, "")
				i.pendingMsg = nil
			}
			i.ghost["reentries"]++
		}
		live[f.fn] = append(live[f.fn], cur)
	}
	i.onLeave = func(f *frame) {
		if _, ok := watched(f); !ok {
			return
		}
		if st := live[f.fn]; len(st) > 0 {
			live[f.fn] = st[:len(st)-1]
		}
	}
	return nil
}

// symLenSlice is a byte slice whose LENGTH is symbolic and whose content is never
// materialised: len() is supported; any element access ends the path.
type symLenSlice struct {
	n *Term // 64-bit
}

func vxBytesSymLen(fr *frame, a []value) value {
	i := fr.i
	max := i.concInt(a[0])
	v := i.ts.Var(32)
	i.assume(lower(types.Bool, i.ts.Cmp(OpUle, v, i.ts.Const(32, uint64(max)))))
	return &symLenSlice{n: i.ts.ZExt(v, 64)}
}
