package gosx

// SMT terms: quantifier-free bit-vectors and booleans, hash-consed per path,
// with constant folding, a concrete evaluator (for the concolic model) and
// an SMT-LIB2 printer that names every shared node once.

import (
	"fmt"
	"strings"
)

type Op uint8

const (
	OpVar Op = iota
	OpConst
	OpAdd
	OpSub
	OpMul
	OpUDiv
	OpSDiv
	OpURem
	OpSRem
	OpAnd
	OpOr
	OpXor
	OpNot // bitwise
	OpNeg
	OpShl
	OpLShr
	OpAShr
	OpZExt    // val = target width
	OpSExt    // val = target width
	OpExtract // val = low bit; width = w  (extract low..low+w-1)
	OpIte
	// boolean-valued
	OpEq
	OpUlt
	OpUle
	OpSlt
	OpSle
	OpBNot
	OpBAnd
	OpBOr
	OpTrue
	OpFalse
)

var opNames = map[Op]string{
	OpAdd: "bvadd", OpSub: "bvsub", OpMul: "bvmul", OpUDiv: "bvudiv", OpSDiv: "bvsdiv",
	OpURem: "bvurem", OpSRem: "bvsrem", OpAnd: "bvand", OpOr: "bvor", OpXor: "bvxor",
	OpNot: "bvnot", OpNeg: "bvneg", OpShl: "bvshl", OpLShr: "bvlshr", OpAShr: "bvashr",
	OpIte: "ite", OpEq: "=", OpUlt: "bvult", OpUle: "bvule", OpSlt: "bvslt", OpSle: "bvsle",
	OpBNot: "not", OpBAnd: "and", OpBOr: "or",
}

// Term is an immutable DAG node. w==0 means Bool.
type Term struct {
	op      Op
	w       uint8
	a, b, c *Term
	val     uint64
	name    string
	id      int
	h1, h2  uint64 // structural (path-independent) hash
}

type termKey struct {
	op      Op
	w       uint8
	a, b, c int
	val     uint64
	name    string
}

// TermStore hash-conses terms for one path.
type TermStore struct {
	tab   map[termKey]*Term
	next  int
	tt    *Term
	ff    *Term
	nvars int
	vars  []*Term
}

func NewTermStore() *TermStore {
	s := &TermStore{tab: make(map[termKey]*Term)}
	s.tt = s.mk(OpTrue, 0, nil, nil, nil, 0, "")
	s.ff = s.mk(OpFalse, 0, nil, nil, nil, 0, "")
	return s
}

func tid(t *Term) int {
	if t == nil {
		return -1
	}
	return t.id
}

func (s *TermStore) mk(op Op, w uint8, a, b, c *Term, val uint64, name string) *Term {
	k := termKey{op, w, tid(a), tid(b), tid(c), val, name}
	if t, ok := s.tab[k]; ok {
		return t
	}
	t := &Term{op: op, w: w, a: a, b: b, c: c, val: val, name: name, id: s.next}
	t.h1, t.h2 = structHash(t)
	s.next++
	s.tab[k] = t
	return t
}

func mix(h, v uint64) uint64 {
	h ^= v + 0x9e3779b97f4a7c15 + (h << 6) + (h >> 2)
	h *= 0xff51afd7ed558ccd
	h ^= h >> 33
	return h
}

func structHash(t *Term) (uint64, uint64) {
	h1 := mix(0x1234567, uint64(t.op)<<8|uint64(t.w))
	h2 := mix(0x7654321, uint64(t.w)<<8|uint64(t.op))
	h1 = mix(h1, t.val)
	h2 = mix(h2, ^t.val)
	for _, ch := range t.name {
		h1 = mix(h1, uint64(ch))
		h2 = mix(h2, uint64(ch)*31)
	}
	for _, c := range []*Term{t.a, t.b, t.c} {
		if c == nil {
			h1 = mix(h1, 1)
			h2 = mix(h2, 2)
		} else {
			h1 = mix(h1, c.h1)
			h2 = mix(h2, c.h2)
		}
	}
	return h1, h2
}

func mask(w uint8) uint64 {
	if w >= 64 {
		return ^uint64(0)
	}
	return (uint64(1) << w) - 1
}

func sext(v uint64, w uint8) int64 {
	if w >= 64 {
		return int64(v)
	}
	sh := 64 - w
	return int64(v<<sh) >> sh
}

func (s *TermStore) Var(w uint8) *Term {
	name := fmt.Sprintf("v%d", len(s.vars))
	t := s.mk(OpVar, w, nil, nil, nil, uint64(len(s.vars)), name)
	s.vars = append(s.vars, t)
	return t
}

func (s *TermStore) Const(w uint8, v uint64) *Term {
	return s.mk(OpConst, w, nil, nil, nil, v&mask(w), "")
}

func (s *TermStore) Bool(b bool) *Term {
	if b {
		return s.tt
	}
	return s.ff
}

func (t *Term) IsConst() bool { return t.op == OpConst || t.op == OpTrue || t.op == OpFalse }
func (t *Term) IsBool() bool  { return t.w == 0 }

// ConstVal returns the value of a constant term (bool as 0/1).
func (t *Term) ConstVal() uint64 {
	switch t.op {
	case OpTrue:
		return 1
	case OpFalse:
		return 0
	}
	return t.val
}

func evalBin(op Op, w uint8, x, y uint64) uint64 {
	m := mask(w)
	switch op {
	case OpAdd:
		return (x + y) & m
	case OpSub:
		return (x - y) & m
	case OpMul:
		return (x * y) & m
	case OpUDiv:
		if y == 0 {
			return m
		}
		return (x / y) & m
	case OpURem:
		if y == 0 {
			return x
		}
		return (x % y) & m
	case OpSDiv:
		sx, sy := sext(x, w), sext(y, w)
		if sy == 0 {
			if sx < 0 {
				return 1
			}
			return m
		}
		if sy == -1 {
			return uint64(-sx) & m
		}
		return uint64(sx/sy) & m
	case OpSRem:
		sx, sy := sext(x, w), sext(y, w)
		if sy == 0 {
			return x
		}
		if sy == -1 {
			return 0
		}
		return uint64(sx%sy) & m
	case OpAnd:
		return x & y
	case OpOr:
		return x | y
	case OpXor:
		return x ^ y
	case OpShl:
		if y >= uint64(w) {
			return 0
		}
		return (x << y) & m
	case OpLShr:
		if y >= uint64(w) {
			return 0
		}
		return (x >> y) & m
	case OpAShr:
		sx := sext(x, w)
		if y >= uint64(w) {
			if sx < 0 {
				return m
			}
			return 0
		}
		return uint64(sx>>y) & m
	case OpEq:
		return b2u(x == y)
	case OpUlt:
		return b2u(x < y)
	case OpUle:
		return b2u(x <= y)
	case OpSlt:
		return b2u(sext(x, w) < sext(y, w))
	case OpSle:
		return b2u(sext(x, w) <= sext(y, w))
	}
	panic("evalBin: bad op")
}

func b2u(b bool) uint64 {
	if b {
		return 1
	}
	return 0
}

// Bin builds a binary bit-vector operation with folding.
func (s *TermStore) Bin(op Op, a, b *Term) *Term {
	w := a.w
	if a.op == OpConst && b.op == OpConst {
		return s.Const(w, evalBin(op, w, a.val, b.val))
	}
	switch op {
	case OpAdd:
		if a.op == OpConst && a.val == 0 {
			return b
		}
		if b.op == OpConst && b.val == 0 {
			return a
		}
		// (x + c1) + c2
		if b.op == OpConst && a.op == OpAdd && a.b.op == OpConst {
			return s.Bin(OpAdd, a.a, s.Const(w, a.b.val+b.val))
		}
	case OpSub:
		if b.op == OpConst && b.val == 0 {
			return a
		}
		if a == b {
			return s.Const(w, 0)
		}
		if b.op == OpConst {
			return s.Bin(OpAdd, a, s.Const(w, -b.val))
		}
	case OpMul:
		if a.op == OpConst && a.val == 1 {
			return b
		}
		if b.op == OpConst && b.val == 1 {
			return a
		}
		if (a.op == OpConst && a.val == 0) || (b.op == OpConst && b.val == 0) {
			return s.Const(w, 0)
		}
	case OpAnd:
		if a == b {
			return a
		}
		if (a.op == OpConst && a.val == 0) || (b.op == OpConst && b.val == 0) {
			return s.Const(w, 0)
		}
		if a.op == OpConst && a.val == mask(w) {
			return b
		}
		if b.op == OpConst && b.val == mask(w) {
			return a
		}
	case OpOr, OpXor:
		if a.op == OpConst && a.val == 0 {
			return b
		}
		if b.op == OpConst && b.val == 0 {
			return a
		}
	case OpShl, OpLShr, OpAShr:
		if b.op == OpConst && b.val == 0 {
			return a
		}
	}
	// push operations through ite of constants when other side is constant
	if b.op == OpConst && a.op == OpIte && a.b.op == OpConst && a.c.op == OpConst {
		return s.Ite(a.a, s.Bin(op, a.b, b), s.Bin(op, a.c, b))
	}
	if a.op == OpConst && b.op == OpIte && b.b.op == OpConst && b.c.op == OpConst {
		return s.Ite(b.a, s.Bin(op, a, b.b), s.Bin(op, a, b.c))
	}
	return s.mk(op, w, a, b, nil, 0, "")
}

// Cmp builds a comparison (Eq, Ult, Ule, Slt, Sle) over bit-vectors or Eq over bools.
func (s *TermStore) Cmp(op Op, a, b *Term) *Term {
	if a.w == 0 { // bool equality
		if op != OpEq {
			panic("Cmp: ordering on bool")
		}
		if a == b {
			return s.tt
		}
		if a.IsConst() {
			if a.op == OpTrue {
				return b
			}
			return s.Not(b)
		}
		if b.IsConst() {
			if b.op == OpTrue {
				return a
			}
			return s.Not(a)
		}
		return s.mk(OpEq, 0, a, b, nil, 0, "")
	}
	if a.op == OpConst && b.op == OpConst {
		return s.Bool(evalBin(op, a.w, a.val, b.val) != 0)
	}
	if a == b {
		switch op {
		case OpEq, OpUle, OpSle:
			return s.tt
		default:
			return s.ff
		}
	}
	// comparisons against ite trees with constant leaves distribute
	if b.op == OpConst && a.op == OpIte && iteConstLeaves(a, 512) {
		return s.Ite(a.a, s.Cmp(op, a.b, b), s.Cmp(op, a.c, b))
	}
	if a.op == OpConst && b.op == OpIte && iteConstLeaves(b, 512) {
		return s.Ite(b.a, s.Cmp(op, a, b.b), s.Cmp(op, a, b.c))
	}
	if op == OpEq {
		// zext(x) == c
		if b.op == OpConst && a.op == OpZExt {
			if b.val > mask(a.a.w) {
				return s.ff
			}
			return s.Cmp(OpEq, a.a, s.Const(a.a.w, b.val))
		}
		if a.op == OpConst && b.op == OpZExt {
			return s.Cmp(OpEq, b, a)
		}
		if a.op == OpConst && b.op != OpConst {
			a, b = b, a
		}
	}
	if (op == OpUlt || op == OpUle) && a.op == OpZExt && b.op == OpConst {
		if b.val > mask(a.a.w) {
			return s.tt
		}
		return s.Cmp(op, a.a, s.Const(a.a.w, b.val))
	}
	if (op == OpUlt || op == OpUle) && b.op == OpZExt && a.op == OpConst {
		if a.val > mask(b.a.w) {
			return s.ff
		}
		return s.Cmp(op, s.Const(b.a.w, a.val), b.a)
	}
	if (op == OpSlt || op == OpSle) && a.op == OpZExt && b.op == OpConst && a.a.w < a.w {
		// zext value is non-negative and < 2^aw
		sb := sext(b.val, b.w)
		if sb < 0 {
			return s.ff
		}
		if uint64(sb) > mask(a.a.w) {
			return s.tt
		}
		uop := OpUlt
		if op == OpSle {
			uop = OpUle
		}
		return s.Cmp(uop, a.a, s.Const(a.a.w, uint64(sb)))
	}
	if (op == OpSlt || op == OpSle) && b.op == OpZExt && a.op == OpConst && b.a.w < b.w {
		sa := sext(a.val, a.w)
		if sa < 0 {
			return s.tt
		}
		if uint64(sa) > mask(b.a.w) {
			return s.ff
		}
		uop := OpUlt
		if op == OpSle {
			uop = OpUle
		}
		return s.Cmp(uop, s.Const(b.a.w, uint64(sa)), b.a)
	}
	return s.mk(op, 0, a, b, nil, 0, "")
}

func iteConstLeaves(t *Term, budget int) bool {
	n := 0
	var rec func(t *Term) bool
	rec = func(t *Term) bool {
		n++
		if n > budget {
			return false
		}
		if t.op == OpConst {
			return true
		}
		if t.op == OpIte {
			return rec(t.b) && rec(t.c)
		}
		return false
	}
	return rec(t)
}

func (s *TermStore) Un(op Op, a *Term) *Term {
	if a.op == OpConst {
		switch op {
		case OpNot:
			return s.Const(a.w, ^a.val)
		case OpNeg:
			return s.Const(a.w, -a.val)
		}
	}
	if a.op == op {
		return a.a
	}
	return s.mk(op, a.w, a, nil, nil, 0, "")
}

func (s *TermStore) Not(a *Term) *Term {
	switch a.op {
	case OpTrue:
		return s.ff
	case OpFalse:
		return s.tt
	case OpBNot:
		return a.a
	}
	return s.mk(OpBNot, 0, a, nil, nil, 0, "")
}

func (s *TermStore) And(a, b *Term) *Term {
	if a.op == OpFalse || b.op == OpFalse {
		return s.ff
	}
	if a.op == OpTrue {
		return b
	}
	if b.op == OpTrue {
		return a
	}
	if a == b {
		return a
	}
	return s.mk(OpBAnd, 0, a, b, nil, 0, "")
}

func (s *TermStore) Or(a, b *Term) *Term {
	if a.op == OpTrue || b.op == OpTrue {
		return s.tt
	}
	if a.op == OpFalse {
		return b
	}
	if b.op == OpFalse {
		return a
	}
	if a == b {
		return a
	}
	return s.mk(OpBOr, 0, a, b, nil, 0, "")
}

func (s *TermStore) Ite(c, a, b *Term) *Term {
	if c.op == OpTrue {
		return a
	}
	if c.op == OpFalse {
		return b
	}
	if a == b {
		return a
	}
	if a.w == 0 {
		// boolean ite
		if a.op == OpTrue && b.op == OpFalse {
			return c
		}
		if a.op == OpFalse && b.op == OpTrue {
			return s.Not(c)
		}
		if a.op == OpTrue {
			return s.Or(c, b)
		}
		if a.op == OpFalse {
			return s.And(s.Not(c), b)
		}
		if b.op == OpTrue {
			return s.Or(s.Not(c), a)
		}
		if b.op == OpFalse {
			return s.And(c, a)
		}
	}
	return s.mk(OpIte, a.w, c, a, b, 0, "")
}

func (s *TermStore) ZExt(a *Term, w uint8) *Term {
	if a.w == w {
		return a
	}
	if a.w > w {
		return s.Extract(a, 0, w)
	}
	if a.op == OpConst {
		return s.Const(w, a.val)
	}
	if a.op == OpZExt {
		return s.ZExt(a.a, w)
	}
	if a.op == OpIte && iteConstLeaves(a, 512) {
		return s.Ite(a.a, s.ZExt(a.b, w), s.ZExt(a.c, w))
	}
	return s.mk(OpZExt, w, a, nil, nil, 0, "")
}

func (s *TermStore) SExt(a *Term, w uint8) *Term {
	if a.w == w {
		return a
	}
	if a.w > w {
		return s.Extract(a, 0, w)
	}
	if a.op == OpConst {
		return s.Const(w, uint64(sext(a.val, a.w)))
	}
	if a.op == OpZExt { // zero-extended value is non-negative
		return s.ZExt(a.a, w)
	}
	if a.op == OpIte && iteConstLeaves(a, 512) {
		return s.Ite(a.a, s.SExt(a.b, w), s.SExt(a.c, w))
	}
	return s.mk(OpSExt, w, a, nil, nil, 0, "")
}

// Extract returns bits [lo, lo+w) of a.
func (s *TermStore) Extract(a *Term, lo uint8, w uint8) *Term {
	if lo == 0 && w == a.w {
		return a
	}
	if a.op == OpConst {
		return s.Const(w, a.val>>lo)
	}
	if lo == 0 && (a.op == OpZExt || a.op == OpSExt) {
		if a.a.w == w {
			return a.a
		}
		if a.a.w > w {
			return s.Extract(a.a, 0, w)
		}
		if a.op == OpZExt {
			return s.ZExt(a.a, w)
		}
		return s.SExt(a.a, w)
	}
	if a.op == OpIte && iteConstLeaves(a, 512) {
		return s.Ite(a.a, s.Extract(a.b, lo, w), s.Extract(a.c, lo, w))
	}
	return s.mk(OpExtract, w, a, nil, nil, uint64(lo), "")
}

// Eval evaluates t under the assignment (vars absent default to 0).
func Eval(t *Term, model []uint64, memo map[int]uint64) uint64 {
	if v, ok := memo[t.id]; ok {
		return v
	}
	var r uint64
	switch t.op {
	case OpVar:
		idx := int(t.val)
		if idx < len(model) {
			r = model[idx] & mask(t.w)
		}
	case OpConst:
		r = t.val
	case OpTrue:
		r = 1
	case OpFalse:
		r = 0
	case OpNot:
		r = ^Eval(t.a, model, memo) & mask(t.w)
	case OpNeg:
		r = -Eval(t.a, model, memo) & mask(t.w)
	case OpZExt:
		r = Eval(t.a, model, memo)
	case OpSExt:
		r = uint64(sext(Eval(t.a, model, memo), t.a.w)) & mask(t.w)
	case OpExtract:
		r = (Eval(t.a, model, memo) >> t.val) & mask(t.w)
	case OpIte:
		if Eval(t.a, model, memo) != 0 {
			r = Eval(t.b, model, memo)
		} else {
			r = Eval(t.c, model, memo)
		}
	case OpBNot:
		r = 1 - Eval(t.a, model, memo)
	case OpBAnd:
		r = Eval(t.a, model, memo) & Eval(t.b, model, memo)
	case OpBOr:
		r = Eval(t.a, model, memo) | Eval(t.b, model, memo)
	case OpEq:
		r = b2u(Eval(t.a, model, memo) == Eval(t.b, model, memo))
	case OpUlt, OpUle, OpSlt, OpSle:
		r = evalBin(t.op, t.a.w, Eval(t.a, model, memo), Eval(t.b, model, memo))
	default:
		r = evalBin(t.op, t.w, Eval(t.a, model, memo), Eval(t.b, model, memo))
	}
	memo[t.id] = r
	return r
}

// smtPrinter prints a set of assertions with every shared non-leaf node
// defined exactly once (define-fun), so output is linear in DAG size.
type smtPrinter struct {
	sb      *strings.Builder
	defined map[int]bool
	canon   bool
	// incremental mode: names already defined in the solver / newly defined here
	have     map[string]int
	newDef   []string
	newVar   []*Term
	declared map[string]int
}

func sortOf(t *Term) string {
	if t.w == 0 {
		return "Bool"
	}
	return fmt.Sprintf("(_ BitVec %d)", t.w)
}

func (p *smtPrinter) ref(t *Term) string {
	switch t.op {
	case OpVar:
		return t.name
	case OpConst:
		if t.w%4 == 0 {
			return fmt.Sprintf("#x%0*x", int(t.w/4), t.val)
		}
		return fmt.Sprintf("(_ bv%d %d)", t.val, t.w)
	case OpTrue:
		return "true"
	case OpFalse:
		return "false"
	}
	if p.canon {
		return fmt.Sprintf("h%016x%016x", t.h1, t.h2)
	}
	return fmt.Sprintf("n%d", t.id)
}

func (p *smtPrinter) define(t *Term) {
	// iterative post-order to avoid deep recursion on long ite chains
	type item struct {
		t    *Term
		done bool
	}
	stack := []item{{t, false}}
	for len(stack) > 0 {
		it := stack[len(stack)-1]
		stack = stack[:len(stack)-1]
		n := it.t
		if n != nil && n.op == OpVar && p.declared != nil {
			if _, ok := p.declared[n.name]; !ok {
				fmt.Fprintf(p.sb, "(declare-const %s %s)\n", n.name, sortOf(n))
				p.declared[n.name] = -1
				p.newVar = append(p.newVar, n)
			}
		}
		if n == nil || n.op == OpVar || n.op == OpConst || n.op == OpTrue || n.op == OpFalse {
			continue
		}
		if p.defined[n.id] {
			continue
		}
		if p.have != nil {
			if _, ok := p.have[p.ref(n)]; ok {
				p.defined[n.id] = true
				continue
			}
		}
		if !it.done {
			stack = append(stack, item{n, true})
			if n.c != nil {
				stack = append(stack, item{n.c, false})
			}
			if n.b != nil {
				stack = append(stack, item{n.b, false})
			}
			if n.a != nil {
				stack = append(stack, item{n.a, false})
			}
			continue
		}
		p.defined[n.id] = true
		var body string
		switch n.op {
		case OpZExt:
			body = fmt.Sprintf("((_ zero_extend %d) %s)", n.w-n.a.w, p.ref(n.a))
		case OpSExt:
			body = fmt.Sprintf("((_ sign_extend %d) %s)", n.w-n.a.w, p.ref(n.a))
		case OpExtract:
			body = fmt.Sprintf("((_ extract %d %d) %s)", uint64(n.w)+n.val-1, n.val, p.ref(n.a))
		case OpNot, OpNeg, OpBNot:
			body = fmt.Sprintf("(%s %s)", opNames[n.op], p.ref(n.a))
		case OpIte:
			body = fmt.Sprintf("(ite %s %s %s)", p.ref(n.a), p.ref(n.b), p.ref(n.c))
		default:
			body = fmt.Sprintf("(%s %s %s)", opNames[n.op], p.ref(n.a), p.ref(n.b))
		}
		fmt.Fprintf(p.sb, "(define-fun %s () %s %s)\n", p.ref(n), sortOf(n), body)
		if p.have != nil {
			p.newDef = append(p.newDef, p.ref(n))
		}
	}
}

// PrintQuery renders declarations + definitions + assertions for the given terms.
func PrintQuery(vars []*Term, asserts []*Term) string {
	var sb strings.Builder
	p := &smtPrinter{sb: &sb, defined: map[int]bool{}}
	for _, v := range vars {
		fmt.Fprintf(&sb, "(declare-const %s %s)\n", v.name, sortOf(v))
	}
	for _, a := range asserts {
		p.define(a)
		fmt.Fprintf(&sb, "(assert %s)\n", p.ref(a))
	}
	return sb.String()
}

// String renders a term as a compact tree (debugging, evidence samples).
func (t *Term) String() string {
	switch t.op {
	case OpVar:
		return t.name
	case OpConst:
		return fmt.Sprintf("%d", t.val)
	case OpTrue:
		return "true"
	case OpFalse:
		return "false"
	case OpZExt, OpSExt, OpExtract, OpNot, OpNeg, OpBNot:
		return fmt.Sprintf("(%s %s)", opNameDbg(t.op), t.a)
	case OpIte:
		return fmt.Sprintf("(ite %s %s %s)", t.a, t.b, t.c)
	}
	return fmt.Sprintf("(%s %s %s)", opNameDbg(t.op), t.a, t.b)
}

func opNameDbg(op Op) string {
	switch op {
	case OpZExt:
		return "zext"
	case OpSExt:
		return "sext"
	case OpExtract:
		return "extract"
	}
	return opNames[op]
}
