package gosx

// Path exploration: decision-prefix re-execution with a concolic model.
// Every branch on a symbolic condition is decided here, by the SMT solver.

import (
	"fmt"
	"go/types"
	"os"
	"runtime/debug"
	"sort"
	"strings"
	"sync"
	"time"
	"unicode"

	"golang.org/x/tools/go/ssa"
)

// decision is one solver-decided control choice on a path.
type decision struct {
	taken bool
	val   uint64 // hint value for concretisation decisions (replay determinism)
}

// seed identifies a path prefix together with a model satisfying it.
type seed struct {
	prefix []decision
	model  []uint64
}

type storeRec struct {
	addr *value
	old  value
}

// interpreter is the state of one worker: one heap, one solver, one path at a time.
type interpreter struct {
	prog               *ssa.Program
	globals            map[*ssa.Global]*value
	runtimeErrorString types.Type
	sizes              types.Sizes
	ex                 *Explorer
	id                 int

	// per-path symbolic state
	ts              *TermStore
	pc              []*Term
	decisions       []decision
	prefix          []decision
	model           []uint64
	evalMemo        map[int]uint64
	pending         []seed
	steps, maxSteps int
	maxDepth        int
	concretisations int
	violations      []Violation
	notes           []noteRec
	assertsSeen     map[string]int
	assertQueries   int
	inconclusive    []string

	solver *Solver

	// heap undo log (active after package initialisation)
	epoch    bool
	undoLog  []storeRec
	undoFns  []func()
	pools    map[*value]*poolState
	tokClock int64

	replace map[string]*ssa.Function
	cutAt   map[string]bool
	trace   bool
	race    *raceState // happens-before monitor (scheduler mode, vx.RaceMonitor)
	onEnter func(fr *frame)
	reentryLimit   int64
	reentryLimitID string
	onLeave func(fr *frame)
	monitor *reentryMonitor
	frozen  map[*value]string
	mapRev  bool
	ghost   map[string]int64

	rangeTables map[*value]*unicode.RangeTable
	funcsSeen   map[string]bool
	curFrame    *frame
	lastPanicAt string
	inStdInit   bool
	pendingMsg  *noteRec
	fdInts      map[*Term]*fdIntInfo
	infoMemo    map[int]varInfo
	canonMemo   map[int]*Term
	domains     map[int]int
	fe          *fastEvaluator
	doms        map[int]*varDomain
	sch         *scheduler
	schAbort    bool
	hardAssume  bool // the assumption defines a variable's domain: the solver must see it
	scratch     []uint64
	prefiltered int
	dbgCount    int
	fillProtos  []iface
	fillPlaced  int
	liftCache   map[string]string
	lifting     int
	known       map[int]uint64
	knownMemo   map[int]*Term
}

// Violation is a failed assertion (explicit or implicit) with its witness.
type Violation struct {
	ID      string   `json:"id"`
	Msg     string   `json:"msg"`
	Tape    []uint64 `json:"tape"`
	Notes   []string `json:"notes,omitempty"`
	Harness string   `json:"harness"`
	PathLen int      `json:"path_len"`
}

// PathResult summarises one explored path.
type PathResult struct {
	Status     string // "ok", "panic", "infeasible", "unsupported", "budget", "cut", "enginebug"
	Msg        string
	Tape       []uint64
	Notes      []string
	Steps      int
	Violations int    // assertion failures found on this path
	Schedule   string `json:",omitempty"` // scheduler mode: goroutine ids in the order they were given the token
}

// Config of one exploration.
type Config struct {
	Harness      string // function name in HarnessPkg
	Workers      int
	MaxSteps     int
	MaxDepth     int
	MaxPaths     int
	TimeLimit    time.Duration
	SolverArgv   []string
	SolverTO     int // ms
	Replace      map[string]string
	CutAt        []string
	Trace        bool
	ExpectPanic  bool   // harness treats escaping panic as a violation (default) unless false...
	QueryLogPath string // if set, assertion queries are appended here (smt2)
	KeepSamples  int
	Seed         int64
}

// Stats aggregated over an exploration.
type Stats struct {
	Paths          int            `json:"paths"`
	ByStatus       map[string]int `json:"by_status"`
	Decisions      int            `json:"decisions"`
	Queries        int            `json:"queries"`
	Sat            int            `json:"sat"`
	Unsat          int            `json:"unsat"`
	Unknown        int            `json:"unknown"`
	AssertQueries  int            `json:"assert_queries"`
	SolverTimeS    float64        `json:"solver_time_s"`
	WallS          float64        `json:"wall_s"`
	Steps          int64          `json:"steps"`
	Concretisation int            `json:"concretisations"`
	Prefiltered    int            `json:"prefiltered_by_domain"`
	Asserts        map[string]int `json:"asserts_reached"`
	Inconclusive   []string       `json:"inconclusive,omitempty"`
	Exhausted      bool           `json:"exhausted"`
	MaxPathLen     int            `json:"max_path_len"`
	Unsupported    map[string]int `json:"unsupported,omitempty"`
}

// Explorer coordinates workers over a shared stack of seeds.
type Explorer struct {
	prog      *ssa.Program
	pkg       *ssa.Package
	fn        *ssa.Function
	cfg       Config
	mu        sync.Mutex
	cond      *sync.Cond
	stack     []seed
	active    int
	stop      bool
	stats     Stats
	viols     []Violation
	samples   []PathResult
	start     time.Time
	initPkgs  []*ssa.Package
	funcsSeen map[string]bool
	liftCache sync.Map // pure-function results shared by all workers
}

func NewExplorer(prog *ssa.Program, pkg *ssa.Package, cfg Config) (*Explorer, error) {
	fn := pkg.Func(cfg.Harness)
	if fn == nil {
		return nil, fmt.Errorf("harness %s not found in %s", cfg.Harness, pkg.Pkg.Path())
	}
	ex := &Explorer{prog: prog, pkg: pkg, fn: fn, cfg: cfg}
	ex.cond = sync.NewCond(&ex.mu)
	ex.stats.ByStatus = map[string]int{}
	ex.stats.Asserts = map[string]int{}
	ex.stats.Unsupported = map[string]int{}
	ex.funcsSeen = map[string]bool{}
	return ex, nil
}

func (ex *Explorer) Run() (Stats, []Violation, []PathResult) {
	ex.start = time.Now()
	ex.stack = []seed{{}}
	n := ex.cfg.Workers
	if n <= 0 {
		n = 1
	}
	var wg sync.WaitGroup
	for w := 0; w < n; w++ {
		wg.Add(1)
		go func(id int) {
			defer wg.Done()
			ex.worker(id)
		}(w)
	}
	wg.Wait()
	ex.stats.WallS = time.Since(ex.start).Seconds()
	ex.stats.Exhausted = !ex.stop && len(ex.stack) == 0
	sort.Strings(ex.stats.Inconclusive)
	return ex.stats, ex.viols, ex.samples
}

func (ex *Explorer) take() (seed, bool) {
	ex.mu.Lock()
	defer ex.mu.Unlock()
	for {
		if ex.stop {
			return seed{}, false
		}
		if n := len(ex.stack); n > 0 {
			s := ex.stack[n-1]
			ex.stack = ex.stack[:n-1]
			ex.active++
			return s, true
		}
		if ex.active == 0 {
			ex.cond.Broadcast()
			return seed{}, false
		}
		ex.cond.Wait()
	}
}

func (ex *Explorer) done(i *interpreter, res PathResult) {
	ex.mu.Lock()
	defer ex.mu.Unlock()
	ex.active--
	// deeper alternatives last so they are popped first (DFS)
	ex.stack = append(ex.stack, i.pending...)
	st := &ex.stats
	st.Paths++
	st.ByStatus[res.Status]++
	st.Decisions += len(i.decisions)
	if len(i.decisions) > st.MaxPathLen {
		st.MaxPathLen = len(i.decisions)
	}
	st.Steps += int64(i.steps)
	st.Concretisation += i.concretisations
	st.Prefiltered += i.prefiltered
	st.AssertQueries += i.assertQueries
	for k, v := range i.assertsSeen {
		st.Asserts[k] += v
	}
	for _, m := range i.inconclusive {
		if len(st.Inconclusive) < 50 {
			st.Inconclusive = append(st.Inconclusive, m)
		}
	}
	switch res.Status {
	case "unsupported", "budget", "enginebug", "unknown":
		key := res.Status + ": " + res.Msg
		st.Unsupported[key]++
	}
	ex.viols = append(ex.viols, i.violations...)
	for f := range i.funcsSeen {
		ex.funcsSeen[f] = true
	}
	if len(ex.samples) < ex.cfg.KeepSamples || (res.Status != "ok" && res.Status != "infeasible" && len(ex.samples) < 4*ex.cfg.KeepSamples) {
		ex.samples = append(ex.samples, res)
	}
	if ex.cfg.MaxPaths > 0 && st.Paths >= ex.cfg.MaxPaths {
		ex.stop = true
	}
	if ex.cfg.TimeLimit > 0 && time.Since(ex.start) > ex.cfg.TimeLimit {
		ex.stop = true
	}
	ex.cond.Broadcast()
}

func (ex *Explorer) worker(id int) {
	i := ex.newInterpreter(id)
	defer i.solver.Close()
	if err := i.initPackages(); err != nil {
		ex.mu.Lock()
		ex.stats.Inconclusive = append(ex.stats.Inconclusive, "init: "+err.Error())
		ex.stop = true
		ex.cond.Broadcast()
		ex.mu.Unlock()
		return
	}
	for {
		s, ok := ex.take()
		if !ok {
			break
		}
		res := i.runPath(s)
		ex.done(i, res)
	}
	ex.mu.Lock()
	ex.stats.Queries += i.solver.Queries
	ex.stats.Sat += i.solver.Sat
	ex.stats.Unsat += i.solver.Unsat
	ex.stats.Unknown += i.solver.Unknown
	ex.stats.SolverTimeS += i.solver.Time.Seconds()
	ex.mu.Unlock()
}

func (ex *Explorer) newInterpreter(id int) *interpreter {
	i := &interpreter{
		prog:      ex.prog,
		globals:   make(map[*ssa.Global]*value),
		sizes:     &types.StdSizes{WordSize: 8, MaxAlign: 8},
		ex:        ex,
		id:        id,
		maxSteps:  ex.cfg.MaxSteps,
		maxDepth:  ex.cfg.MaxDepth,
		trace:     ex.cfg.Trace,
		replace:   map[string]*ssa.Function{},
		cutAt:     map[string]bool{},
		pools:     map[*value]*poolState{},
		funcsSeen: map[string]bool{},
	}
	if i.maxSteps == 0 {
		i.maxSteps = 2_000_000
	}
	if i.maxDepth == 0 {
		i.maxDepth = 4000
	}
	for from, to := range ex.cfg.Replace {
		f := ex.pkg.Func(to)
		if f == nil {
			panic("replacement function not found: " + to)
		}
		i.replace[from] = f
	}
	for _, c := range ex.cfg.CutAt {
		i.cutAt[c] = true
	}
	if rt := ex.prog.ImportedPackage("runtime"); rt != nil {
		i.runtimeErrorString = rt.Type("errorString").Object().Type()
	} else {
		panic("program lacks package runtime")
	}
	argv := ex.cfg.SolverArgv
	if len(argv) == 0 {
		argv = []string{"z3", "-in"}
	}
	to := ex.cfg.SolverTO
	if to == 0 {
		to = 20000
	}
	s, err := NewSolver(argv, to)
	if err != nil {
		panic(err)
	}
	i.solver = s
	if ex.cfg.QueryLogPath != "" {
		f, err := os.OpenFile(fmt.Sprintf("%s.%d", ex.cfg.QueryLogPath, id), os.O_CREATE|os.O_WRONLY|os.O_TRUNC, 0644)
		if err == nil {
			i.solver.log = f
		}
	}
	i.ts = NewTermStore()
	return i
}

// runtimeError builds the interface value of a runtime.Error as seen by recover().
func (i *interpreter) runtimeError(msg string) value {
	i.lastPanicAt = i.where()
	return iface{t: i.runtimeErrorString, v: msg}
}

// where renders the current target call stack (innermost first).
func (i *interpreter) where() string {
	var sb strings.Builder
	n := 0
	for fr := i.curFrame; fr != nil && n < 8; fr = fr.caller {
		pos := ""
		if fr.cur != nil && fr.cur.Pos().IsValid() {
			p := i.prog.Fset.Position(fr.cur.Pos())
			pos = fmt.Sprintf("%s:%d", p.Filename[strings.LastIndex(p.Filename, "/")+1:], p.Line)
		}
		fmt.Fprintf(&sb, "%s(%s) < ", fr.fn.String(), pos)
		n++
	}
	return sb.String()
}

// ---------------------------------------------------------------------------
// heap undo log

func (i *interpreter) logStore(addr *value) {
	if i.epoch {
		i.undoLog = append(i.undoLog, storeRec{addr, *addr})
	}
}

func (i *interpreter) rollback() {
	for k := len(i.undoLog) - 1; k >= 0; k-- {
		r := i.undoLog[k]
		*r.addr = r.old
	}
	i.undoLog = i.undoLog[:0]
	for k := len(i.undoFns) - 1; k >= 0; k-- {
		i.undoFns[k]()
	}
	i.undoFns = i.undoFns[:0]
}

// ---------------------------------------------------------------------------
// one path

func (i *interpreter) runPath(s seed) (res PathResult) {
	i.ts = NewTermStore()
	i.pc = i.pc[:0]
	i.decisions = i.decisions[:0]
	i.prefix = s.prefix
	i.model = s.model
	i.evalMemo = map[int]uint64{}
	i.pending = nil
	i.steps = 0
	i.concretisations = 0
	i.violations = nil
	i.notes = nil
	i.assertsSeen = map[string]int{}
	i.assertQueries = 0
	i.inconclusive = nil
	i.frozen = nil
	i.monitor = nil
	i.onEnter, i.onLeave = nil, nil
	i.mapRev = false
	i.ghost = map[string]int64{}
	i.tokClock = 0
	i.known = nil
	i.knownMemo = nil
	i.fdInts = nil
	i.lifting = 0
	i.infoMemo = nil
	i.canonMemo = nil
	i.domains = map[int]int{}
	i.doms = nil
	i.prefiltered = 0
	i.fe = nil

	i.schAbort = false
	i.sch = nil
	i.race = nil
	defer func() {
		res.Schedule = i.scheduleString()
		i.endSchedule()
		i.rollback()
		res.Tape = i.tape()
		res.Notes = i.renderNotes(i.model)
		res.Steps = i.steps
		res.Violations = len(i.violations)
	}()
	defer func() {
		r := recover()
		if r == nil {
			return
		}
		switch p := r.(type) {
		case pathAbort:
			res = PathResult{Status: p.kind, Msg: p.msg}
			if p.kind == "budget" {
				i.violations = append(i.violations, Violation{ID: "unwind", Msg: p.msg, Tape: i.tape(), Notes: i.renderNotes(i.model), Harness: i.ex.cfg.Harness, PathLen: len(i.decisions)})
			}
		case engineBug:
			res = PathResult{Status: "enginebug", Msg: p.msg}
		default:
			// a panic escaped the harness: implicit assertion failure
			msg := i.describePanic(r)
			if _, isTarget := r.(targetPanic); !isTarget {
				if _, isRt := r.(interface{ RuntimeError() }); isRt || true {
					// host-level failure: cannot distinguish from an engine defect
					res = PathResult{Status: "enginebug", Msg: msg + "\n" + trimStack(string(debug.Stack()))}
					return
				}
			}
			msg += " at " + i.lastPanicAt
			res = PathResult{Status: "panic", Msg: msg}
			i.violations = append(i.violations, Violation{ID: "panic", Msg: msg, Tape: i.tape(), Notes: i.renderNotes(i.model), Harness: i.ex.cfg.Harness, PathLen: len(i.decisions)})
		}
	}()
	call(i, nil, 0, i.ex.fn, nil)
	return PathResult{Status: "ok"}
}

func trimStack(s string) string {
	lines := strings.Split(s, "\n")
	var out []string
	for _, l := range lines {
		if strings.Contains(l, "gosx") && !strings.Contains(l, "visitInstr") && !strings.Contains(l, "runFrame") && !strings.Contains(l, "callSSA") {
			out = append(out, strings.TrimSpace(l))
		}
		if len(out) > 12 {
			break
		}
	}
	return strings.Join(out, " | ")
}

// tape returns the concrete value of every input variable created so far.
func (i *interpreter) tape() []uint64 {
	t := make([]uint64, len(i.ts.vars))
	for k := range t {
		if k < len(i.model) {
			t[k] = i.model[k] & mask(i.ts.vars[k].w)
		}
	}
	return t
}

func (i *interpreter) evalTerm(t *Term) uint64 {
	return Eval(t, i.model, i.evalMemo)
}

func (i *interpreter) resetEval() {
	i.fe = nil
}

func (i *interpreter) setModel(m []uint64) {
	i.model = m
	i.evalMemo = map[int]uint64{}
}

// newVar creates a fresh input variable.
func (i *interpreter) newVar(k types.BasicKind) sym {
	if k == types.Bool {
		v := i.ts.Var(1)
		return sym{types.Bool, i.ts.Cmp(OpEq, v, i.ts.Const(1, 1))}
	}
	return sym{k, i.ts.Var(kindWidth(k))}
}

// branch decides a symbolic condition. The side the current model takes is
// followed; the other side is scheduled iff the solver finds it feasible.
func (i *interpreter) branch(c *Term) bool {
	return i.branchV(c, 0)
}

func (i *interpreter) branchV(c *Term, hint uint64) bool {
	c = i.canon1(i.reduce(c))
	if c.op == OpTrue {
		return true
	}
	if c.op == OpFalse {
		return false
	}
	switch i.domainEval(c, false, false) {
	case 1:
		i.prefiltered++
		return true
	case -1:
		i.prefiltered++
		return false
	}
	n := len(i.decisions)
	if n < len(i.prefix) {
		d := i.prefix[n]
		i.decisions = append(i.decisions, d)
		i.addPC(c, d.taken)
		return d.taken
	}
	if n > i.ex.cfg.maxDecisions() {
		panic(pathAbort{"budget", "decision budget exceeded"})
	}
	taken := i.evalTerm(c) != 0
	if debugOn {
		w := i.where()
		if k := strings.Index(w, " < "); k > 0 {
			w = w[:k]
		}
		i.ex.mu.Lock()
		i.ex.stats.Unsupported["branch@"+w]++
		i.ex.mu.Unlock()
	}
	// other side
	var alt *Term
	if taken {
		alt = i.ts.Not(c)
	} else {
		alt = c
	}
	r, m := i.solver.Check(i.ts.vars, append(i.pcCopy(), alt))
	switch r {
	case ResSat:
		pfx := make([]decision, n+1)
		copy(pfx, i.decisions)
		pfx[n] = decision{taken: !taken, val: hint}
		i.pending = append(i.pending, seed{prefix: pfx, model: m})
	case ResUnknown:
		i.inconclusive = append(i.inconclusive, "solver unknown on branch feasibility")
	case ResUnsat:
		if debugOn {
			w := i.where()
			if k := strings.Index(w, " < "); k > 0 {
				w = w[:k]
			}
			i.ex.mu.Lock()
			i.ex.stats.Unsupported["unsat@"+w+" "+c.String()]++
			i.ex.mu.Unlock()
		}
	}
	i.decisions = append(i.decisions, decision{taken: taken, val: hint})
	i.addPC(c, taken)
	return taken
}

func (c Config) maxDecisions() int { return 100000 }

func (i *interpreter) pcCopy() []*Term {
	out := make([]*Term, len(i.pc), len(i.pc)+1)
	copy(out, i.pc)
	return out
}

func (i *interpreter) addPC(c *Term, taken bool) {
	i.domainEval(c, true, taken)
	if taken {
		i.pc = append(i.pc, c)
		// v == const pins a variable: later conditions over it fold to constants
		if c.op == OpEq && c.a.op == OpVar && c.b.op == OpConst {
			if i.known == nil {
				i.known = map[int]uint64{}
			}
			i.known[int(c.a.val)] = c.b.val
			i.knownMemo = nil
		}
	} else {
		i.pc = append(i.pc, i.ts.Not(c))
	}
}

// reduce partially evaluates t under the pinned variables.
func (i *interpreter) reduce(t *Term) *Term {
	if len(i.known) == 0 {
		return t
	}
	if i.knownMemo == nil {
		i.knownMemo = map[int]*Term{}
	}
	return i.reduceRec(t)
}

func (i *interpreter) reduceRec(t *Term) *Term {
	if r, ok := i.knownMemo[t.id]; ok {
		return r
	}
	ts := i.ts
	var r *Term
	switch t.op {
	case OpVar:
		if v, ok := i.known[int(t.val)]; ok {
			r = ts.Const(t.w, v)
		} else {
			r = t
		}
	case OpConst, OpTrue, OpFalse:
		r = t
	case OpNot, OpNeg:
		r = ts.Un(t.op, i.reduceRec(t.a))
	case OpBNot:
		r = ts.Not(i.reduceRec(t.a))
	case OpBAnd:
		r = ts.And(i.reduceRec(t.a), i.reduceRec(t.b))
	case OpBOr:
		r = ts.Or(i.reduceRec(t.a), i.reduceRec(t.b))
	case OpIte:
		r = ts.Ite(i.reduceRec(t.a), i.reduceRec(t.b), i.reduceRec(t.c))
	case OpZExt:
		r = ts.ZExt(i.reduceRec(t.a), t.w)
	case OpSExt:
		r = ts.SExt(i.reduceRec(t.a), t.w)
	case OpExtract:
		r = ts.Extract(i.reduceRec(t.a), uint8(t.val), t.w)
	case OpEq, OpUlt, OpUle, OpSlt, OpSle:
		r = ts.Cmp(t.op, i.reduceRec(t.a), i.reduceRec(t.b))
	default:
		r = ts.Bin(t.op, i.reduceRec(t.a), i.reduceRec(t.b))
	}
	i.knownMemo[t.id] = r
	return r
}

// hintValue returns the replay hint for the next decision, or computes it.
func (i *interpreter) hintValue(compute func() uint64) uint64 {
	n := len(i.decisions)
	if n < len(i.prefix) {
		return i.prefix[n].val
	}
	return compute()
}

// assume adds c to the path condition; an unsatisfiable assumption ends the path.
func (i *interpreter) assume(v value) {
	switch c := v.(type) {
	case bool:
		if !c {
			panic(pathAbort{"infeasible", "assumption false"})
		}
	case sym:
		if i.domainEval(c.t, false, false) == 1 && !i.hardAssume {
			return
		}
		i.domainEval(c.t, true, true)
		if i.evalTerm(c.t) != 0 {
			i.pc = append(i.pc, c.t)
			return
		}
		// current model violates the assumption: find another model
		r, m := i.solver.Check(i.ts.vars, append(i.pcCopy(), c.t))
		switch r {
		case ResSat:
			i.pc = append(i.pc, c.t)
			i.setModel(m)
		case ResUnsat:
			panic(pathAbort{"infeasible", "assumption unsatisfiable"})
		default:
			panic(pathAbort{"unknown", "solver unknown on assumption"})
		}
	}
}

// assert discharges an assertion on this path: query pc ∧ ¬c.
func (i *interpreter) assert(id string, v value, msg string) {
	i.assertsSeen[id]++
	switch c := v.(type) {
	case bool:
		if !c {
			i.violation(id, msg, i.tape())
		}
	case sym:
		i.assertQueries++
		ct := i.canon1(i.reduce(c.t))
		if ct.op == OpTrue {
			return
		}
		if i.domainEval(ct, false, false) == 1 {
			i.prefiltered++
			return
		}
		c = sym{c.k, ct}
		q := append(i.pcCopy(), i.ts.Not(c.t))
		r, m := i.solver.Check(i.ts.vars, q)
		i.solver.LogStandalone(i.ts.vars, q, fmt.Sprintf("assert %s expect=%d", id, r))
		switch r {
		case ResSat:
			t := make([]uint64, len(i.ts.vars))
			copy(t, m)
			i.violation(id, msg, t)
			// continue under the assumption that the assertion held, if possible
			if i.evalTerm(c.t) == 0 {
				r2, m2 := i.solver.Check(i.ts.vars, append(i.pcCopy(), c.t))
				if r2 != ResSat {
					panic(pathAbort{"stop", "assertion fails on every input of this path"})
				}
				i.setModel(m2)
			}
			i.pc = append(i.pc, c.t)
		case ResUnknown:
			i.inconclusive = append(i.inconclusive, "solver unknown on assertion "+id)
		}
	}
}

func (i *interpreter) violation(id, msg string, tape []uint64) {
	if len(i.violations) > 20 {
		return
	}
	if i.pendingMsg != nil && msg == "" {
		saved := i.notes
		i.notes = []noteRec{*i.pendingMsg}
		if r := i.renderNotes(tape); len(r) == 1 {
			msg = r[0]
		}
		i.notes = saved
	}
	if sc := i.scheduleString(); sc != "" {
		msg += " schedule=" + sc
	}
	i.violations = append(i.violations, Violation{ID: id, Msg: msg, Tape: tape, Notes: i.renderNotes(tape), Harness: i.ex.cfg.Harness, PathLen: len(i.decisions)})
}

// noteRec is an observation recorded by vx.Notef; it is rendered at the end of
// the path (or for a counterexample) under the relevant model.
type noteRec struct {
	format string
	args   []value
}

func (i *interpreter) renderNotes(model []uint64) []string {
	if len(i.notes) == 0 {
		return nil
	}
	savedModel, savedMemo := i.model, i.evalMemo
	i.model, i.evalMemo = model, map[int]uint64{}
	defer func() { i.model, i.evalMemo = savedModel, savedMemo }()
	out := make([]string, 0, len(i.notes))
	for _, n := range i.notes {
		c := &fmtCtx{i: i, fr: nil, evalModel: true}
		func() {
			defer func() {
				if r := recover(); r != nil {
					out = append(out, fmt.Sprintf("<note render failed: %v>", r))
				}
			}()
			out = append(out, fmt.Sprintf(n.format, c.args(n.args)...))
		}()
	}
	return out
}
