package gosx

// Symbolic scalars and the symbolic halves of binop/unop/conv.

import (
	"fmt"
	"go/token"
	"go/types"
	"os"
	"strings"
)

// sym is a symbolic scalar: a Bool or an integer of basic kind k.
// Invariant: t is never a constant (constants are lowered to Go values).
type sym struct {
	k types.BasicKind
	t *Term
}

func kindWidth(k types.BasicKind) uint8 {
	switch k {
	case types.Bool:
		return 0
	case types.Int8, types.Uint8:
		return 8
	case types.Int16, types.Uint16:
		return 16
	case types.Int32, types.Uint32:
		return 32
	case types.Int, types.Int64, types.Uint, types.Uint64, types.Uintptr:
		return 64
	}
	panic(fmt.Sprintf("kindWidth: %v", k))
}

func kindSigned(k types.BasicKind) bool {
	switch k {
	case types.Int, types.Int8, types.Int16, types.Int32, types.Int64:
		return true
	}
	return false
}

func isSym(v value) bool {
	_, ok := v.(sym)
	return ok
}

// kindOf returns the basic kind of a concrete scalar value.
func kindOf(v value) (types.BasicKind, uint64, bool) {
	switch x := v.(type) {
	case bool:
		return types.Bool, b2u(x), true
	case int:
		return types.Int, uint64(x), true
	case int8:
		return types.Int8, uint64(x), true
	case int16:
		return types.Int16, uint64(x), true
	case int32:
		return types.Int32, uint64(x), true
	case int64:
		return types.Int64, uint64(x), true
	case uint:
		return types.Uint, uint64(x), true
	case uint8:
		return types.Uint8, uint64(x), true
	case uint16:
		return types.Uint16, uint64(x), true
	case uint32:
		return types.Uint32, uint64(x), true
	case uint64:
		return types.Uint64, x, true
	case uintptr:
		return types.Uintptr, uint64(x), true
	}
	return 0, 0, false
}

// mkScalar builds a concrete Go value of kind k from raw bits.
func mkScalar(k types.BasicKind, v uint64) value {
	switch k {
	case types.Bool:
		return v != 0
	case types.Int:
		return int(v)
	case types.Int8:
		return int8(v)
	case types.Int16:
		return int16(v)
	case types.Int32:
		return int32(v)
	case types.Int64:
		return int64(v)
	case types.Uint:
		return uint(v)
	case types.Uint8:
		return uint8(v)
	case types.Uint16:
		return uint16(v)
	case types.Uint32:
		return uint32(v)
	case types.Uint64:
		return v
	case types.Uintptr:
		return uintptr(v)
	}
	panic(fmt.Sprintf("mkScalar: %v", k))
}

// termOf lifts a scalar value (concrete or sym) to a term.
func (i *interpreter) termOf(v value) (*Term, types.BasicKind) {
	if s, ok := v.(sym); ok {
		return s.t, s.k
	}
	k, bits, ok := kindOf(v)
	if !ok {
		panic(pathAbort{"unsupported", fmt.Sprintf("termOf(%T)", v)})
	}
	if k == types.Bool {
		return i.ts.Bool(bits != 0), k
	}
	return i.ts.Const(kindWidth(k), bits), k
}

// lower turns a term back into a value: concrete if constant, else sym.
func lower(k types.BasicKind, t *Term) value {
	if t.IsConst() {
		return mkScalar(k, t.ConstVal())
	}
	return sym{k, t}
}

func (i *interpreter) symBinop(op token.Token, x, y value) value {
	ts := i.ts
	tx, kx := i.termOf(x)
	ty, ky := i.termOf(y)
	if kx == types.Bool {
		switch op {
		case token.EQL:
			return lower(types.Bool, ts.Cmp(OpEq, tx, ty))
		case token.NEQ:
			return lower(types.Bool, ts.Not(ts.Cmp(OpEq, tx, ty)))
		case token.AND, token.LAND:
			return lower(types.Bool, ts.And(tx, ty))
		case token.OR, token.LOR:
			return lower(types.Bool, ts.Or(tx, ty))
		}
		panic(pathAbort{"unsupported", "bool binop " + op.String()})
	}
	w := kindWidth(kx)
	signed := kindSigned(kx)
	switch op {
	case token.SHL, token.SHR:
		// shift count may have another type; Go: count >= width gives 0 (or sign fill)
		wy := kindWidth(ky)
		var cnt *Term
		if wy < w {
			cnt = ts.ZExt(ty, w)
		} else if wy > w {
			// saturate: if ty >= w then w else low bits
			big := ts.Cmp(OpUle, ts.Const(wy, uint64(w)), ty)
			cnt = ts.Ite(big, ts.Const(w, uint64(w)), ts.Extract(ty, 0, w))
		} else {
			cnt = ty
		}
		if op == token.SHL {
			return lower(kx, ts.Bin(OpShl, tx, cnt))
		}
		if signed {
			return lower(kx, ts.Bin(OpAShr, tx, cnt))
		}
		return lower(kx, ts.Bin(OpLShr, tx, cnt))
	}
	if ky != kx && kindWidth(ky) != w {
		panic(pathAbort{"unsupported", fmt.Sprintf("binop %s kinds %v %v", op, kx, ky)})
	}
	switch op {
	case token.ADD:
		return lower(kx, ts.Bin(OpAdd, tx, ty))
	case token.SUB:
		return lower(kx, ts.Bin(OpSub, tx, ty))
	case token.MUL:
		return lower(kx, ts.Bin(OpMul, tx, ty))
	case token.QUO, token.REM:
		// division by zero panics
		z := ts.Cmp(OpEq, ty, ts.Const(w, 0))
		if i.branch(z) {
			panic(targetPanic{i.runtimeError("integer divide by zero")})
		}
		var o Op
		switch {
		case op == token.QUO && signed:
			o = OpSDiv
		case op == token.QUO:
			o = OpUDiv
		case signed:
			o = OpSRem
		default:
			o = OpURem
		}
		return lower(kx, ts.Bin(o, tx, ty))
	case token.AND:
		return lower(kx, ts.Bin(OpAnd, tx, ty))
	case token.OR:
		return lower(kx, ts.Bin(OpOr, tx, ty))
	case token.XOR:
		return lower(kx, ts.Bin(OpXor, tx, ty))
	case token.AND_NOT:
		return lower(kx, ts.Bin(OpAnd, tx, ts.Un(OpNot, ty)))
	case token.EQL:
		return lower(types.Bool, ts.Cmp(OpEq, tx, ty))
	case token.NEQ:
		return lower(types.Bool, ts.Not(ts.Cmp(OpEq, tx, ty)))
	case token.LSS:
		if signed {
			return lower(types.Bool, ts.Cmp(OpSlt, tx, ty))
		}
		return lower(types.Bool, ts.Cmp(OpUlt, tx, ty))
	case token.LEQ:
		if signed {
			return lower(types.Bool, ts.Cmp(OpSle, tx, ty))
		}
		return lower(types.Bool, ts.Cmp(OpUle, tx, ty))
	case token.GTR:
		if signed {
			return lower(types.Bool, ts.Cmp(OpSlt, ty, tx))
		}
		return lower(types.Bool, ts.Cmp(OpUlt, ty, tx))
	case token.GEQ:
		if signed {
			return lower(types.Bool, ts.Cmp(OpSle, ty, tx))
		}
		return lower(types.Bool, ts.Cmp(OpUle, ty, tx))
	}
	panic(pathAbort{"unsupported", "sym binop " + op.String()})
}

func (i *interpreter) symUnop(op token.Token, x sym) value {
	switch op {
	case token.NOT:
		return lower(types.Bool, i.ts.Not(x.t))
	case token.SUB:
		return lower(x.k, i.ts.Un(OpNeg, x.t))
	case token.XOR:
		return lower(x.k, i.ts.Un(OpNot, x.t))
	}
	panic(pathAbort{"unsupported", "sym unop " + op.String()})
}

// symConvInt converts a symbolic integer to integer kind dst.
func (i *interpreter) symConvInt(dst types.BasicKind, x sym) value {
	wd, ws := kindWidth(dst), kindWidth(x.k)
	var t *Term
	switch {
	case wd == ws:
		t = x.t
	case wd < ws:
		t = i.ts.Extract(x.t, 0, wd)
	case kindSigned(x.k):
		t = i.ts.SExt(x.t, wd)
	default:
		t = i.ts.ZExt(x.t, wd)
	}
	return lower(dst, t)
}

// asTerm64 returns the value as a 64-bit term interpreted as Go int (sign/zero
// extended according to its kind).
func (i *interpreter) asTerm64(v value) *Term {
	t, k := i.termOf(v)
	if kindWidth(k) == 64 {
		return t
	}
	if kindSigned(k) {
		return i.ts.SExt(t, 64)
	}
	return i.ts.ZExt(t, 64)
}

// boolTerm returns the term of a bool value.
func (i *interpreter) boolTerm(v value) *Term {
	switch x := v.(type) {
	case bool:
		return i.ts.Bool(x)
	case sym:
		return x.t
	}
	panic(fmt.Sprintf("boolTerm(%T)", v))
}

// truth decides a (possibly symbolic) bool, forking if needed.
func (i *interpreter) truth(v value) bool {
	switch x := v.(type) {
	case bool:
		return x
	case sym:
		return i.branch(x.t)
	}
	panic(fmt.Sprintf("truth(%T)", v))
}

// concInt concretises an integer value: for a symbolic value it forks over
// its feasible values (model value first).
func (i *interpreter) concInt(v value) int64 {
	s, ok := v.(sym)
	if !ok {
		return asInt64(v)
	}
	return int64(i.concretize(s))
}

// concretize forks over the feasible values of s and returns the chosen bits
// (sign-extended for signed kinds).
func (i *interpreter) concretize(s sym) uint64 {
	if s.k == types.Bool {
		return b2u(i.branch(s.t))
	}
	w := kindWidth(s.k)
	for n := 0; ; n++ {
		if n > 4096 {
			if debugOn {
				fmt.Fprintf(os.Stderr, "gosx: concretize stuck: term=%s model-val=%d ndec=%d nprefix=%d pre=%d\n", s.t.String()[:min(len(s.t.String()), 400)], i.evalTerm(s.t), len(i.decisions), len(i.prefix), i.domainEval(i.ts.Cmp(OpEq, s.t, i.ts.Const(w, i.evalTerm(s.t))), false, false))
			}
			panic(pathAbort{"unsupported", "concretize: too many values at " + i.where()})
		}
		// a value pinned by the path condition needs no decision (and must not consume a
		// replay hint that belongs to a later decision)
		cand := i.evalTerm(s.t)
		if pc := i.canon1(i.reduce(i.ts.Cmp(OpEq, s.t, i.ts.Const(w, cand)))); pc.op == OpTrue || i.domainEval(pc, false, false) == 1 {
			if kindSigned(s.k) {
				return uint64(sext(cand, w))
			}
			return cand
		}
		v := i.hintValue(func() uint64 { return cand })
		if i.branchV(i.ts.Cmp(OpEq, s.t, i.ts.Const(w, v)), v) {
			i.concretisations++
			if debugOn && strings.Contains(i.where(), "leven") && i.dbgCount < 3 {
				i.dbgCount++
				for fr := i.curFrame; fr != nil; fr = fr.caller {
					ps := ""
					for _, p := range fr.fn.Params {
						ps += toString(fr.env[p])[:min(len(toString(fr.env[p])), 60)] + "; "
					}
					fmt.Fprintf(os.Stderr, "   frame %s(%s)\n", fr.fn.Name(), ps)
				}
				fmt.Fprintf(os.Stderr, "gosx: concretize %s (lifting=%d) at %s\n", s.t.String()[:min(len(s.t.String()), 300)], i.lifting, i.where()[:200])
			}
			if debugOn {
				w := i.where()
				i.ex.mu.Lock()
				i.ex.stats.Unsupported["conc@"+w[:min(len(w), 400)]]++
				i.ex.mu.Unlock()
			}
			if kindSigned(s.k) {
				return uint64(sext(v, w))
			}
			return v
		}
	}
}

// concValue returns a fully concrete scalar for v.
func (i *interpreter) concValue(v value) value {
	if s, ok := v.(sym); ok {
		return mkScalar(s.k, i.concretize(s))
	}
	return v
}
