package gosx

// fmt intrinsics: the real fmt package formats; symbolic string arguments are
// replaced by sentinels and spliced back, symbolic integers are concretised.

import (
	"fmt"
	"go/types"
	"strings"

	"golang.org/x/tools/go/ssa"
)

// fmtInt formats like the underlying integer for numeric verbs and like the
// String()/Error() text for %v/%s.
type fmtNamed struct {
	num    interface{} // underlying basic value (may be nil)
	text   string
	hasTxt bool
	goSyn  string
}

func (f fmtNamed) Format(st fmt.State, verb rune) {
	switch verb {
	case 'v', 's':
		if st.Flag('#') && verb == 'v' && f.goSyn != "" {
			fmt.Fprint(st, f.goSyn)
			return
		}
		if f.hasTxt {
			fmt.Fprintf(st, fmt.FormatString(st, 's'), f.text)
			return
		}
		if f.num != nil {
			fmt.Fprintf(st, fmt.FormatString(st, verb), f.num)
			return
		}
		fmt.Fprint(st, f.text)
	case 'q':
		if f.hasTxt {
			fmt.Fprintf(st, fmt.FormatString(st, 'q'), f.text)
			return
		}
		fmt.Fprintf(st, fmt.FormatString(st, verb), f.num)
	default:
		if f.num != nil {
			fmt.Fprintf(st, fmt.FormatString(st, verb), f.num)
			return
		}
		fmt.Fprintf(st, fmt.FormatString(st, verb), f.text)
	}
}

type fmtCtx struct {
	i     *interpreter
	fr    *frame
	syms  []value // symbolic strings referenced by sentinel index
	wraps []iface // %w operands
	// evalModel: render symbolic content under the current model instead of
	// keeping it symbolic (used for notes / witnesses only)
	evalModel bool
}

func (c *fmtCtx) sentinel(v value) string {
	c.syms = append(c.syms, v)
	return fmt.Sprintf("\x00\x01S%d\x01\x00", len(c.syms)-1)
}

func hasMethod(i *interpreter, t types.Type, name string) *ssa.Function {
	ms := i.prog.MethodSets.MethodSet(t)
	for k := 0; k < ms.Len(); k++ {
		sel := ms.At(k)
		if sel.Obj().Name() == name {
			sig := sel.Type().(*types.Signature)
			if sig.Params().Len() == 0 && sig.Results().Len() == 1 {
				if b, ok := sig.Results().At(0).Type().Underlying().(*types.Basic); ok && b.Kind() == types.String {
					return i.prog.MethodValue(sel)
				}
			}
		}
	}
	return nil
}

// native converts an interface-typed argument to a host value fmt can format.
func (c *fmtCtx) native(a value) interface{} {
	itf, ok := a.(iface)
	if !ok {
		return c.plain(nil, a)
	}
	if itf.t == nil {
		return nil
	}
	i := c.i
	// error / Stringer take precedence, as in fmt
	for _, m := range []string{"Error", "String"} {
		if m == "String" {
			if _, isPtr := itf.t.Underlying().(*types.Pointer); isPtr {
				if p, _ := itf.v.(*value); p == nil {
					if fn := hasMethod(i, itf.t, m); fn != nil {
						return fmtNamed{text: "<nil>", hasTxt: true}
					}
				}
			}
		}
		if fn := hasMethod(i, itf.t, m); fn != nil {
			var txt value
			func() {
				defer func() {
					if r := recover(); r != nil {
						if pa, ok := r.(pathAbort); ok {
							panic(pa)
						}
						txt = "%!v(PANIC=" + m + " method)"
					}
				}()
				txt = call(i, c.fr, 0, fn, []value{itf.v})
			}()
			var num interface{}
			if _, _, isScalar := kindOf(itf.v); isScalar {
				num = itf.v
			}
			if s, ok := txt.(string); ok {
				return fmtNamed{num: num, text: s, hasTxt: true}
			}
			if c.evalModel {
				return fmtNamed{num: num, text: i.showString(txt), hasTxt: true}
			}
			return fmtNamed{num: num, text: c.sentinel(txt), hasTxt: true}
		}
	}
	return c.plain(itf.t, itf.v)
}

// plain converts a non-method value.
func (c *fmtCtx) plain(t types.Type, v value) interface{} {
	i := c.i
	switch x := v.(type) {
	case bool, int, int8, int16, int32, int64, uint, uint8, uint16, uint32, uint64, uintptr, float32, float64, complex64, complex128, string:
		return x
	case sym:
		if c.evalModel {
			return mkScalar(x.k, i.evalTerm(x.t))
		}
		return mkScalar(x.k, i.concretize(x))
	case *symstr:
		if c.evalModel {
			return i.showString(x)
		}
		return c.sentinel(x)
	case *fdstr:
		if c.evalModel {
			return i.showString(x)
		}
		return c.sentinel(x)
	case *ropestr, *decTerm:
		if c.evalModel {
			return i.showString(x)
		}
		return c.sentinel(x)
	case []value:
		// []byte prints specially; others as list
		if t != nil {
			if st, ok := t.Underlying().(*types.Slice); ok {
				if b, ok := st.Elem().Underlying().(*types.Basic); ok && b.Kind() == types.Uint8 {
					s := mkStr(append([]value(nil), x...))
					if cs, ok := s.(string); ok {
						return []byte(cs)
					}
					if c.evalModel {
						return []byte(i.showString(s))
					}
					return c.sentinel(s)
				}
				out := make([]interface{}, len(x))
				for k, e := range x {
					out[k] = c.elem(st.Elem(), e)
				}
				return out
			}
		}
		out := make([]interface{}, len(x))
		for k, e := range x {
			out[k] = c.elem(nil, e)
		}
		return out
	case iface:
		return c.native(x)
	case *value:
		if x == nil {
			return fmtNamed{text: "<nil>", hasTxt: true}
		}
		if t != nil {
			if pt, ok := t.Underlying().(*types.Pointer); ok {
				if _, isStruct := pt.Elem().Underlying().(*types.Struct); isStruct {
					return fmtNamed{text: "&" + c.render(pt.Elem(), *x), hasTxt: true}
				}
			}
		}
		return fmtNamed{text: fmt.Sprintf("0xc%09x", uintptrOf(x)&0xfffffffff), hasTxt: true}
	case structure, array, *gmap:
		return fmtNamed{text: c.render(t, v), hasTxt: true}
	case *ssa.Function, *closure:
		return fmtNamed{text: "0xfunc", hasTxt: true}
	case nil:
		return nil
	}
	return fmtNamed{text: fmt.Sprintf("<%T>", v), hasTxt: true}
}

func (c *fmtCtx) elem(t types.Type, v value) interface{} {
	if t != nil {
		if _, isI := t.Underlying().(*types.Interface); !isI {
			return c.native(iface{t: t, v: v})
		}
	}
	return c.native(v)
}

// render approximates %v for aggregates.
func (c *fmtCtx) render(t types.Type, v value) string {
	switch x := v.(type) {
	case structure:
		var sb strings.Builder
		sb.WriteString("{")
		var st *types.Struct
		if t != nil {
			st, _ = t.Underlying().(*types.Struct)
		}
		for k, f := range x {
			if k > 0 {
				sb.WriteString(" ")
			}
			var ft types.Type
			if st != nil {
				ft = st.Field(k).Type()
			}
			sb.WriteString(fmt.Sprint(c.elem(ft, f)))
		}
		sb.WriteString("}")
		return sb.String()
	case array:
		var sb strings.Builder
		sb.WriteString("[")
		var et types.Type
		if t != nil {
			if at, ok := t.Underlying().(*types.Array); ok {
				et = at.Elem()
			}
		}
		for k, f := range x {
			if k > 0 {
				sb.WriteString(" ")
			}
			sb.WriteString(fmt.Sprint(c.elem(et, f)))
		}
		sb.WriteString("]")
		return sb.String()
	case *gmap:
		var sb strings.Builder
		sb.WriteString("map[")
		first := true
		if x != nil {
			for _, e := range x.entries {
				if e.deleted {
					continue
				}
				if !first {
					sb.WriteString(" ")
				}
				first = false
				sb.WriteString(fmt.Sprint(c.elem(nil, e.key)) + ":" + fmt.Sprint(c.elem(nil, e.val)))
			}
		}
		sb.WriteString("]")
		return sb.String()
	}
	return fmt.Sprint(c.plain(t, v))
}

func uintptrOf(p *value) uintptr {
	return uintptr(ptrBits(p))
}

// splice turns formatted text containing sentinels back into a string value.
func (c *fmtCtx) splice(s string) value {
	if len(c.syms) == 0 || !strings.Contains(s, "\x00\x01S") {
		return s
	}
	var acc value = ""
	for len(s) > 0 {
		k := strings.Index(s, "\x00\x01S")
		if k < 0 {
			acc = c.i.strConcat(acc, s)
			break
		}
		acc = c.i.strConcat(acc, s[:k])
		rest := s[k+3:]
		e := strings.Index(rest, "\x01\x00")
		var idx int
		fmt.Sscanf(rest[:e], "%d", &idx)
		acc = c.i.strConcat(acc, c.syms[idx])
		s = rest[e+2:]
	}
	return acc
}

func (c *fmtCtx) args(vs []value) []interface{} {
	out := make([]interface{}, len(vs))
	for k, v := range vs {
		out[k] = c.native(v)
	}
	return out
}

// verbsOf returns the verb consumed by each successive operand of a format
// (explicit argument indexes are not supported: ok=false).
func verbsOf(f string) (verbs []byte, ok bool) {
	for k := 0; k < len(f); k++ {
		if f[k] != '%' {
			continue
		}
		k++
		for k < len(f) && strings.IndexByte("+-# 0123456789.", f[k]) >= 0 {
			k++
		}
		if k >= len(f) {
			break
		}
		switch f[k] {
		case '%':
			continue
		case '[', '*':
			return nil, false
		}
		verbs = append(verbs, f[k])
	}
	return verbs, true
}

// argsFor converts operands knowing their verbs: a symbolic rune under %c stays symbolic.
func (c *fmtCtx) argsFor(f string, vs []value) (string, []interface{}) {
	verbs, ok := verbsOf(f)
	if !ok {
		return f, c.args(vs)
	}
	out := make([]interface{}, len(vs))
	var nf strings.Builder
	// rewrite %c of symbolic operands to %s of a sentinel
	vi := 0
	for k := 0; k < len(f); k++ {
		if f[k] != '%' {
			nf.WriteByte(f[k])
			continue
		}
		start := k
		k++
		for k < len(f) && strings.IndexByte("+-# 0123456789.", f[k]) >= 0 {
			k++
		}
		if k >= len(f) {
			nf.WriteString(f[start:])
			break
		}
		if f[k] == '%' {
			nf.WriteString(f[start : k+1])
			continue
		}
		verb := f[k]
		if vi < len(vs) && (verb == 'd' || verb == 'v') && k == start+1 && !c.evalModel {
			if itf, isI := vs[vi].(iface); isI {
				if sv, isSym := itf.v.(sym); isSym && sv.k != types.Bool {
					if bt, ok := itf.t.(*types.Basic); ok && bt.Info()&types.IsInteger != 0 {
						out[vi] = c.sentinel(&decTerm{k: sv.k, t: sv.t})
						nf.WriteString("%s")
						vi++
						continue
					}
				}
			}
		}
		if vi < len(vs) && verb == 'c' {
			if itf, isI := vs[vi].(iface); isI {
				if sv, isSym := itf.v.(sym); isSym {
					out[vi] = c.sentinel(mkStr(c.i.encodeRune(sv)))
					nf.WriteString("%s")
					vi++
					continue
				}
			}
		}
		nf.WriteString(f[start : k+1])
		vi++
	}
	_ = verbs
	for k, v := range vs {
		if out[k] == nil {
			out[k] = c.native(v)
		}
	}
	return nf.String(), out
}

func (i *interpreter) sprintf(fr *frame, format value, args []value) (value, *fmtCtx) {
	c := &fmtCtx{i: i, fr: fr}
	f := i.concString(format)
	// %w behaves like %v for formatting; remember operands
	if strings.Contains(f, "%w") {
		n := 0
		for k := 0; k+1 < len(f); k++ {
			if f[k] == '%' {
				if f[k+1] == '%' {
					k++
					continue
				}
				// find verb
				j := k + 1
				for j < len(f) && strings.IndexByte("+-# 0123456789.[]*", f[j]) >= 0 {
					j++
				}
				if j < len(f) {
					if f[j] == 'w' && n < len(args) {
						if e, ok := args[n].(iface); ok {
							c.wraps = append(c.wraps, e)
						}
					}
					n++
					k = j
				}
			}
		}
		f = strings.ReplaceAll(f, "%w", "%v")
	}
	f2, nat := c.argsFor(f, args)
	s := fmt.Sprintf(f2, nat...)
	return c.splice(s), c
}

func extSprintf(fr *frame, a []value) value {
	v, _ := fr.i.sprintf(fr, a[0], a[1].([]value))
	return v
}

func extSprint(fr *frame, a []value) value {
	c := &fmtCtx{i: fr.i, fr: fr}
	return c.splice(fmt.Sprint(c.args(a[0].([]value))...))
}

func extSprintln(fr *frame, a []value) value {
	c := &fmtCtx{i: fr.i, fr: fr}
	return c.splice(fmt.Sprintln(c.args(a[0].([]value))...))
}

// writeTo calls w.Write(bytes) on an io.Writer interface value.
func (i *interpreter) writeTo(fr *frame, w value, s value) value {
	wi := w.(iface)
	if wi.t == nil {
		panic(targetPanic{i.runtimeError("invalid memory address or nil pointer dereference")})
	}
	ms := i.prog.MethodSets.MethodSet(wi.t)
	for k := 0; k < ms.Len(); k++ {
		sel := ms.At(k)
		if sel.Obj().Name() == "Write" {
			fn := i.prog.MethodValue(sel)
			b := i.strBytes(s)
			buf := make([]value, len(b))
			copy(buf, b)
			return call(i, fr, 0, fn, []value{wi.v, buf})
		}
	}
	panic(pathAbort{"unsupported", "Fprintf target without Write"})
}

func extFprintf(fr *frame, a []value) value {
	v, _ := fr.i.sprintf(fr, a[1], a[2].([]value))
	return fr.i.writeTo(fr, a[0], v)
}

func extFprint(fr *frame, a []value) value {
	c := &fmtCtx{i: fr.i, fr: fr}
	return fr.i.writeTo(fr, a[0], c.splice(fmt.Sprint(c.args(a[1].([]value))...)))
}

func extFprintln(fr *frame, a []value) value {
	c := &fmtCtx{i: fr.i, fr: fr}
	return fr.i.writeTo(fr, a[0], c.splice(fmt.Sprintln(c.args(a[1].([]value))...)))
}

// extErrorf builds *fmt.wrapError / *fmt.wrapErrors / *errors.errorString like the real one.
func extErrorf(fr *frame, a []value) value {
	i := fr.i
	msg, c := i.sprintf(fr, a[0], a[1].([]value))
	fmtPkg := i.prog.ImportedPackage("fmt")
	switch len(c.wraps) {
	case 0:
		// errors.New(msg) -> &errorString{s}
		ep := i.prog.ImportedPackage("errors")
		t := ep.Type("errorString").Type()
		var cell value = structure{msg}
		return iface{t: types.NewPointer(t), v: &cell}
	case 1:
		t := fmtPkg.Type("wrapError").Type()
		var cell value = structure{msg, c.wraps[0]}
		return iface{t: types.NewPointer(t), v: &cell}
	default:
		t := fmtPkg.Type("wrapErrors").Type()
		errs := make([]value, len(c.wraps))
		for k, w := range c.wraps {
			errs[k] = w
		}
		var cell value = structure{msg, errs}
		return iface{t: types.NewPointer(t), v: &cell}
	}
}

// extSscanf supports the "%d" form used by the parser.
func extSscanf(fr *frame, a []value) value {
	i := fr.i
	format := i.concString(a[1])
	args := a[2].([]value)
	errT := func(msg string) value {
		ep := i.prog.ImportedPackage("errors")
		t := ep.Type("errorString").Type()
		var cell value = structure{msg}
		return iface{t: types.NewPointer(t), v: &cell}
	}
	if format == "%d" && len(args) == 1 {
		target := args[0].(iface)
		p := target.v.(*value)
		pt := target.t.Underlying().(*types.Pointer).Elem()
		conv := func(s string) (value, bool) {
			var n int64
			if _, err := fmt.Sscanf(s, "%d", &n); err != nil {
				return nil, false
			}
			return n, true
		}
		if fd, ok := a[0].(*fdstr); ok {
			// fork only on parse success / failure, keep the value as a term
			okT := i.fdPred(fd, func(r string) bool { _, ok := conv(r); return ok })
			if !i.truth(okT) {
				return tuple{0, errT("expected integer")}
			}
			v := i.fdInt(fd, func(r string) int64 {
				n, ok := conv(r)
				if !ok {
					return 0
				}
				return n.(int64)
			})
			i.store(pt, p, i.conv(pt, types.Typ[types.Int], v))
			return tuple{1, iface{}}
		}
		s := i.concString(a[0])
		n, ok := conv(s)
		if !ok {
			return tuple{0, errT("expected integer")}
		}
		i.store(pt, p, i.conv(pt, types.Typ[types.Int64], n))
		return tuple{1, iface{}}
	}
	panic(pathAbort{"unsupported", "fmt.Sscanf format " + format})
}
