package gosx

import (
	"fmt"
	"go/types"
	"sort"
	"strings"
	"unicode"

	"golang.org/x/tools/go/ssa"
)

// initPackages runs the package initialisers of the program under test (and of
// a few pure stdlib packages) once per worker; afterwards the heap is
// undo-logged so every path starts from the identical post-init state.
func (i *interpreter) initPackages() (err error) {
	defer func() {
		if r := recover(); r != nil {
			switch p := r.(type) {
			case pathAbort:
				err = fmt.Errorf("%s: %s", p.kind, p.msg)
			case targetPanic:
				err = fmt.Errorf("panic in init: %s at %s", i.describePanic(p), i.lastPanicAt)
			default:
				err = fmt.Errorf("init failed: %v", r)
			}
		}
	}()
	i.ts = NewTermStore()
	i.evalMemo = map[int]uint64{}
	i.assertsSeen = map[string]int{}
	i.maxSteps = 1 << 40
	initFn := i.ex.pkg.Func("init")
	call(i, nil, 0, initFn, nil)
	i.maxSteps = i.ex.cfg.MaxSteps
	if i.maxSteps == 0 {
		i.maxSteps = 2_000_000
	}
	i.epoch = true
	return nil
}

// initAllowed says whether a package's init function is executed.
func initAllowed(path string) bool {
	if strings.HasPrefix(path, "github.com/ajitpratap0/GoSQLX") {
		return true
	}
	switch path {
	case "errors", "io", "strconv", "unicode/utf8", "sort", "strings", "bytes", "context", "io/fs", "math", "math/bits", "hash/fnv", "hash", "bufio", "regexp/syntax", "path/filepath", "path", "slices", "maps", "cmp", "iter":
		return true
	}
	return false
}

func (i *interpreter) global(g *ssa.Global) *value {
	if r, ok := i.globals[g]; ok {
		return r
	}
	cell := i.zero(mustDeref(g.Type()))
	if g.Pkg != nil && g.Pkg.Pkg.Path() == "unicode" {
		if t := hostRangeTable(g.Name()); t != nil {
			// opaque handle standing for the host's table of the same name
			h := new(value)
			*h = structure{}
			cell = h
			if i.rangeTables == nil {
				i.rangeTables = map[*value]*unicode.RangeTable{}
			}
			i.rangeTables[h] = t
		}
	}
	p := &cell
	if i.epoch {
		i.undoFns = append(i.undoFns, func() { delete(i.globals, g) })
	}
	i.globals[g] = p
	return p
}

// vxReach(root any, ifaceName string) []any: all values of a type implementing the
// named interface of root's package that are reachable from root through fields.
func vxReach(fr *frame, a []value) value {
	_ = fr.i
	root := a[0].(iface)
	var out []value
	seen := map[*value]bool{}
	var nodeIface *types.Interface
	if sel, ok := a[1].(iface); ok && sel.t != nil {
		if pt, ok := sel.t.Underlying().(*types.Pointer); ok {
			nodeIface, _ = pt.Elem().Underlying().(*types.Interface)
		}
	}
	if nodeIface == nil {
		panic(pathAbort{"unsupported", "Reach: second argument must be a (*Interface)(nil)"})
	}
	pointersOnly := true
	var walk func(t types.Type, v value)
	walk = func(t types.Type, v value) {
		if t == nil {
			return
		}
		switch u := t.Underlying().(type) {
		case *types.Interface:
			x, ok := v.(iface)
			if !ok || x.t == nil {
				return
			}
			walk(x.t, x.v)
		case *types.Pointer:
			p, ok := v.(*value)
			if !ok || p == nil {
				return
			}
			if types.Implements(t, nodeIface) {
				if seen[p] {
					return
				}
				out = append(out, iface{t: t, v: p})
			}
			if seen[p] {
				return
			}
			seen[p] = true
			walk(u.Elem(), *p)
		case *types.Struct:
			s := v.(structure)
			if _, isPtr := t.(*types.Pointer); !isPtr && !pointersOnly && types.Implements(t, nodeIface) {
				out = append(out, iface{t: t, v: copyVal(s)})
			}
			for k := 0; k < u.NumFields(); k++ {
				walk(u.Field(k).Type(), s[k])
			}
		case *types.Slice:
			s, _ := v.([]value)
			for _, e := range s {
				walk(u.Elem(), e)
			}
		case *types.Array:
			s := v.(array)
			for _, e := range s {
				walk(u.Elem(), e)
			}
		case *types.Map:
			m, _ := v.(*gmap)
			if m != nil {
				for _, e := range m.entries {
					if !e.deleted {
						walk(u.Elem(), e.val)
					}
				}
			}
		}
	}
	walk(root.t, root.v)
	return out
}

// vxFill(p any, depth int): fills *p with arbitrary content according to its type:
// scalars symbolic, strings 1 symbolic byte or empty (choice), pointers nil/non-nil
// (choice) to the given depth, slices of length 0..1, interfaces nil.
func vxFill(fr *frame, a []value) value {
	i := fr.i
	target := a[0].(iface)
	depth := int(i.concInt(a[1]))
	var sentinel iface
	if len(a) > 2 {
		sentinel, _ = a[2].(iface)
	}
	p := target.v.(*value)
	pt := target.t.Underlying().(*types.Pointer).Elem()
	var gen func(t types.Type, d int) value
	choice := func(n int) int {
		v := i.ts.Var(16)
		i.assume(lower(types.Bool, i.ts.Cmp(OpUlt, v, i.ts.Const(16, uint64(n)))))
		return int(i.concretize(sym{types.Uint16, v}))
	}
	gen = func(t types.Type, d int) value {
		switch u := t.Underlying().(type) {
		case *types.Basic:
			switch {
			case u.Info()&types.IsBoolean != 0:
				return i.newVar(types.Bool)
			case u.Info()&types.IsInteger != 0:
				return i.newVar(u.Kind())
			case u.Kind() == types.String:
				if choice(2) == 0 {
					return ""
				}
				return mkStr([]value{i.newVar(types.Uint8)})
			}
			return i.zero(t)
		case *types.Pointer:
			if d <= 0 || choice(2) == 0 {
				return i.zero(t)
			}
			cell := gen(u.Elem(), d-1)
			return &cell
		case *types.Struct:
			s := make(structure, u.NumFields())
			for k := range s {
				s[k] = gen(u.Field(k).Type(), d)
			}
			return s
		case *types.Slice:
			if d <= 0 || choice(2) == 0 {
				return i.zero(t)
			}
			return []value{gen(u.Elem(), d-1)}
		case *types.Array:
			arr := make(array, u.Len())
			for k := range arr {
				arr[k] = gen(u.Elem(), d)
			}
			return arr
		case *types.Interface:
			// an interface field holds the sentinel (shared object) or stays nil
			if sentinel.t != nil && types.Implements(sentinel.t, u) && choice(2) == 1 {
				return sentinel
			}
			return i.zero(t)
		case *types.Map:
			if d <= 0 || choice(2) == 0 {
				return i.zero(t)
			}
			m := i.makeMap(u.Key())
			return m
		}
		return i.zero(t)
	}
	i.store(pt, p, gen(pt, depth))
	return nil
}

// vxFillAll(p any, sentinel any): every field of *p gets non-zero content without forking:
// scalars symbolic, strings one symbolic byte, pointers to filled values (one level),
// slices of one filled element, interfaces the sentinel (when it implements them), maps empty non-nil.
// vxFillOne: the same content for exactly ONE top-level field (symbolic choice), others untouched.
// cloneProto returns a fresh copy of a prototype node (*T) so every placement is a distinct object.
func cloneProto(p iface) iface {
	ptr, ok := p.v.(*value)
	if !ok || ptr == nil {
		return p
	}
	cell := copyVal(*ptr)
	return iface{t: p.t, v: &cell}
}

func (i *interpreter) fillFull(t types.Type, d int, sentinel iface) value {
	if len(i.fillProtos) > 0 {
		if it, ok := t.Underlying().(*types.Interface); ok {
			if it.NumMethods() == 0 {
				return i.zero(t) // `any` fields hold data, not nodes
			}
			for _, p := range i.fillProtos {
				if p.t != nil && types.Implements(p.t, it) {
					i.fillPlaced++
					return cloneProto(p)
				}
			}
			return i.zero(t)
		}
	}
	switch u := t.Underlying().(type) {
	case *types.Basic:
		switch {
		case u.Info()&types.IsBoolean != 0:
			return i.newVar(types.Bool)
		case u.Info()&types.IsInteger != 0:
			return i.newVar(u.Kind())
		case u.Kind() == types.String:
			return mkStr([]value{i.newVar(types.Uint8)})
		}
		return i.zero(t)
	case *types.Pointer:
		if d <= 0 {
			return i.zero(t)
		}
		cell := i.fillFull(u.Elem(), d-1, sentinel)
		return &cell
	case *types.Struct:
		s := make(structure, u.NumFields())
		for k := range s {
			s[k] = i.fillFull(u.Field(k).Type(), d, sentinel)
		}
		return s
	case *types.Slice:
		if d <= 0 {
			return i.zero(t)
		}
		if len(i.fillProtos) > 0 {
			if _, isPtr := u.Elem().Underlying().(*types.Pointer); isPtr && d-1 <= 0 {
				return i.zero(t) // no nil elements in slices of pointers
			}
			a, b := i.fillFull(u.Elem(), d-1, sentinel), i.fillFull(u.Elem(), d-1, sentinel)
			if inner, ok := u.Elem().Underlying().(*types.Slice); ok {
				// rows of different widths: the second row is one element wider than the first
				if bs, ok := b.([]value); ok && len(bs) > 0 {
					b = append(append([]value{}, bs...), i.fillFull(inner.Elem(), d-2, sentinel))
				}
			}
			return []value{a, b}
		}
		return []value{i.fillFull(u.Elem(), d-1, sentinel)}
	case *types.Array:
		arr := make(array, u.Len())
		for k := range arr {
			arr[k] = i.fillFull(u.Elem(), d, sentinel)
		}
		return arr
	case *types.Interface:
		if sentinel.t != nil && types.Implements(sentinel.t, u) {
			return sentinel
		}
		return i.zero(t)
	case *types.Map:
		return i.makeMap(u.Key())
	}
	return i.zero(t)
}

func vxFillAll(fr *frame, a []value) value {
	i := fr.i
	target := a[0].(iface)
	sentinel, _ := a[1].(iface)
	p := target.v.(*value)
	pt := target.t.Underlying().(*types.Pointer).Elem()
	i.store(pt, p, i.fillFull(pt, 2, sentinel))
	return nil
}

func vxFillOne(fr *frame, a []value) value {
	i := fr.i
	target := a[0].(iface)
	sentinel, _ := a[1].(iface)
	p := target.v.(*value)
	pt := target.t.Underlying().(*types.Pointer).Elem()
	st, ok := pt.Underlying().(*types.Struct)
	if !ok || st.NumFields() == 0 {
		return -1
	}
	v := i.ts.Var(16)
	i.assume(lower(types.Bool, i.ts.Cmp(OpUlt, v, i.ts.Const(16, uint64(st.NumFields())))))
	k := int(i.concretize(sym{types.Uint16, v}))
	fields := (*p).(structure)
	d := 2
	if len(i.fillProtos) > 0 {
		d = 3
	}
	i.store(st.Field(k).Type(), &fields[k], i.fillFull(st.Field(k).Type(), d, sentinel))
	return k
}

// vxFillOneOf(p any, protos ...any) int: like FillOne, but interface fields receive a fresh
// clone of the first prototype implementing them and slices get two elements.
func vxFillOneOf(fr *frame, a []value) value {
	i := fr.i
	i.fillProtos = nil
	for _, p := range a[1].([]value) {
		i.fillProtos = append(i.fillProtos, p.(iface))
	}
	defer func() { i.fillProtos = nil }()
	return vxFillOne(fr, []value{a[0], iface{}})
}

// vxDump(v any) string: canonical rendering of a value under the current model
// (pointers followed, addresses never printed).
func vxDump(fr *frame, a []value) value {
	i := fr.i
	var sb strings.Builder
	seen := map[*value]int{}
	var w func(v value, d int)
	w = func(v value, d int) {
		if d > 40 {
			sb.WriteString("…")
			return
		}
		switch x := v.(type) {
		case nil:
			sb.WriteString("nil")
		case iface:
			if x.t == nil {
				sb.WriteString("nil")
				return
			}
			sb.WriteString(shortType(x.t))
			sb.WriteString(":")
			w(x.v, d+1)
		case *value:
			if x == nil {
				sb.WriteString("nil")
				return
			}
			if n, ok := seen[x]; ok {
				fmt.Fprintf(&sb, "^%d", n)
				return
			}
			seen[x] = len(seen)
			sb.WriteString("&")
			w(*x, d+1)
		case structure:
			sb.WriteString("{")
			for k, f := range x {
				if k > 0 {
					sb.WriteString(" ")
				}
				w(f, d+1)
			}
			sb.WriteString("}")
		case array:
			sb.WriteString("[")
			for k, f := range x {
				if k > 0 {
					sb.WriteString(" ")
				}
				w(f, d+1)
			}
			sb.WriteString("]")
		case []value:
			if x == nil {
				sb.WriteString("[]")
				return
			}
			sb.WriteString("[")
			for k, f := range x {
				if k > 0 {
					sb.WriteString(" ")
				}
				w(f, d+1)
			}
			sb.WriteString("]")
		case *gmap:
			var keys []string
			vals := map[string]value{}
			if x != nil {
				for _, e := range x.entries {
					if !e.deleted {
						ks := fmt.Sprint(e.key)
						if isStr(e.key) {
							ks = i.showString(e.key)
						}
						keys = append(keys, ks)
						vals[ks] = e.val
					}
				}
			}
			sort.Strings(keys)
			sb.WriteString("map[")
			for k, ks := range keys {
				if k > 0 {
					sb.WriteString(" ")
				}
				sb.WriteString(ks + ":")
				w(vals[ks], d+1)
			}
			sb.WriteString("]")
		case sym:
			bits := i.evalTerm(x.t)
			fmt.Fprint(&sb, mkScalar(x.k, bits))
		case string, *symstr, *fdstr:
			fmt.Fprintf(&sb, "%q", i.showString(x))
		case *ssa.Function, *closure:
			sb.WriteString("func")
		default:
			fmt.Fprint(&sb, x)
		}
	}
	w(a[0], 0)
	return sb.String()
}

func shortType(t types.Type) string {
	return types.TypeString(t, func(p *types.Package) string { return p.Name() })
}
