package gosx

// Scheduler mode (C10): `go f()` creates a target goroutine that runs on its own host
// goroutine, but only one of them runs at a time (token passing). Scheduling points are
// the sync/atomic operations, mutex operations and goroutine exit; at every scheduling
// point the next goroutine to run is a solver-visible choice (a decision of the path),
// so "all interleavings at atomic-operation granularity" of the bounded program are
// explored like any other branch.

import (
	"fmt"
	"go/types"

	"golang.org/x/tools/go/ssa"
)

type tgoroutine struct {
	id      int
	wake    chan struct{}
	done    bool
	blocked func() bool // non-nil: not runnable until it returns false
	panicV  interface{}
	frame   *frame
}

// preemptionBound limits the number of times a runnable goroutine is switched away from at a
// scheduling point (context-bounded exploration, as in CHESS); switches at goroutine exit or
// when the current goroutine blocks are free.
var preemptionBound = 2

type scheduler struct {
	preempt int
	gs      []*tgoroutine
	cur     *tgoroutine
	trace   []int
	mutexes map[*value]int // lock word -> owner goroutine id (+1)
}

func (i *interpreter) sched() *scheduler {
	if i.sch == nil {
		main := &tgoroutine{id: 0, wake: make(chan struct{}, 1)}
		i.sch = &scheduler{gs: []*tgoroutine{main}, cur: main, mutexes: map[*value]int{}}
	}
	return i.sch
}

func (i *interpreter) goStmt(fr *frame, instr *ssa.Go, fn value, args []value) {
	s := i.sched()
	if len(s.gs) > 8 {
		panic(pathAbort{"unsupported", "more than 8 goroutines"})
	}
	g := &tgoroutine{id: len(s.gs), wake: make(chan struct{}, 1)}
	s.gs = append(s.gs, g)
	i.raceFork(s.cur.id, g.id)
	go func() {
		<-g.wake // wait until scheduled for the first time
		if i.schAbort {
			return
		}
		defer func() {
			if r := recover(); r != nil {
				g.panicV = r
			}
			g.done = true
			i.raceExit(g.id)
			// hand the token to someone else; this host goroutine ends
			i.switchFrom(g, true)
		}()
		i.curFrame = nil
		call(i, nil, instr.Pos(), fn, args)
	}()
}

// runnable lists goroutines that can run now.
func (s *scheduler) runnable() []*tgoroutine {
	var out []*tgoroutine
	for _, g := range s.gs {
		if g.done {
			continue
		}
		if g.blocked != nil && g.blocked() {
			continue
		}
		out = append(out, g)
	}
	return out
}

// yield is a scheduling point of the current goroutine.
func (i *interpreter) yield() {
	if i.sch == nil || len(i.sch.gs) == 1 {
		return
	}
	i.switchFrom(i.sch.cur, false)
}

// switchFrom picks the next goroutine (symbolic choice) and transfers control.
func (i *interpreter) switchFrom(me *tgoroutine, exiting bool) {
	s := i.sch
	for {
		rs := s.runnable()
		if len(rs) == 0 {
			if exiting {
				// last one out: wake main if it is waiting for us (it is blocked in Wait)
				return
			}
			panic(pathAbort{"unsupported", "deadlock: no runnable goroutine"})
		}
		var next *tgoroutine
		meRunnable := false
		for _, g := range rs {
			if g == me {
				meRunnable = true
			}
		}
		if len(rs) == 1 {
			next = rs[0]
		} else if meRunnable && !exiting && s.preempt >= preemptionBound {
			next = me
		} else {
			v := i.ts.Var(16)
			i.domains[int(v.val)] = len(rs)
			i.hardAssume = true
			i.assume(lower(types.Bool, i.ts.Cmp(OpUlt, v, i.ts.Const(16, uint64(len(rs))))))
			i.hardAssume = false
			k := int(i.concretize(sym{types.Uint16, v}))
			next = rs[k]
		}
		s.trace = append(s.trace, next.id)
		if next == me && !exiting {
			return
		}
		if meRunnable && !exiting {
			s.preempt++
		}
		s.cur = next
		saved := i.curFrame
		next.wake <- struct{}{}
		if exiting {
			return
		}
		<-me.wake
		if i.schAbort {
			panic(pathAbort{"stop", "path aborted in another goroutine"})
		}
		i.curFrame = saved
		s.cur = me
		return
	}
}

// waitAll blocks the current goroutine until every other goroutine is done
// (WaitGroup.Wait in harnesses).
func (i *interpreter) waitAll() {
	if i.sch == nil {
		return
	}
	me := i.sch.cur
	me.blocked = func() bool {
		for _, g := range i.sch.gs {
			if g != me && !g.done {
				return true
			}
		}
		return false
	}
	i.switchFrom(me, false)
	me.blocked = nil
	i.raceJoinFinished(me.id)
	for _, g := range i.sch.gs {
		if g.panicV != nil {
			p := g.panicV
			g.panicV = nil
			panic(p)
		}
	}
}

// endSchedule releases host goroutines of an aborted path.
func (i *interpreter) endSchedule() {
	if i.sch == nil {
		return
	}
	i.schAbort = true
	for _, g := range i.sch.gs[1:] {
		if !g.done {
			select {
			case g.wake <- struct{}{}:
			default:
			}
		}
	}
	i.sch = nil
}

func (i *interpreter) scheduleString() string {
	if i.sch == nil {
		return ""
	}
	return fmt.Sprint(i.sch.trace)
}
