package gosx

// encoding/json on concrete data: Marshal and Unmarshal are executed by the host's
// encoding/json, with a type-directed bridge between engine values and JSON text that follows
// the package's rules for the shapes the target uses (struct tags with name / omitempty / "-",
// embedded structs are not supported, no custom (Un)MarshalJSON methods except json.RawMessage,
// interface{} destinations receive bool / float64 / string / []interface{} / map[string]interface{}).
// Symbolic bytes are concretised first (stated in the claim of the harnesses that reach here).

import (
	"bytes"
	"encoding/json"
	"fmt"
	"go/types"
	"reflect"
	"sort"
	"strings"

	"golang.org/x/tools/go/ssa"
)

var jsonFuncs = map[string]externalFn{}

func init() {
	jsonFuncs["encoding/json.Unmarshal"] = func(fr *frame, a []value) value {
		i := fr.i
		data := i.concBytes(a[0])
		dst, ok := a[1].(iface)
		if !ok || dst.t == nil {
			return i.errorValue("json: Unmarshal(nil)")
		}
		pt, ok := dst.t.Underlying().(*types.Pointer)
		if !ok {
			return i.errorValue("json: Unmarshal(non-pointer " + dst.t.String() + ")")
		}
		p := dst.v.(*value)
		if p == nil {
			return i.errorValue("json: Unmarshal(nil " + dst.t.String() + ")")
		}
		if !json.Valid(data) {
			var probe any
			err := json.Unmarshal(data, &probe)
			if err == nil {
				err = fmt.Errorf("invalid JSON")
			}
			return i.errorValue(err.Error())
		}
		nv, err := i.jsonDecode(pt.Elem(), data, load(pt.Elem(), p))
		if nv != nil {
			i.store(pt.Elem(), p, nv)
		}
		if err != nil {
			return i.errorValue(err.Error())
		}
		return iface{}
	}
	jsonFuncs["encoding/json.Marshal"] = func(fr *frame, a []value) value {
		i := fr.i
		v, _ := a[0].(iface)
		tree, err := i.jsonTree(v.t, v.v)
		if err != nil {
			return tuple{[]value(nil), i.errorValue(err.Error())}
		}
		out, err := json.Marshal(tree)
		if err != nil {
			return tuple{[]value(nil), i.errorValue(err.Error())}
		}
		return tuple{bytesToValues(out), iface{}}
	}
	jsonFuncs["encoding/json.MarshalIndent"] = func(fr *frame, a []value) value {
		i := fr.i
		v, _ := a[0].(iface)
		tree, err := i.jsonTree(v.t, v.v)
		if err != nil {
			return tuple{[]value(nil), i.errorValue(err.Error())}
		}
		out, err := json.MarshalIndent(tree, i.concString(a[1]), i.concString(a[2]))
		if err != nil {
			return tuple{[]value(nil), i.errorValue(err.Error())}
		}
		return tuple{bytesToValues(out), iface{}}
	}
	jsonFuncs["encoding/json.Valid"] = func(fr *frame, a []value) value {
		return json.Valid(fr.i.concBytes(a[0]))
	}
}

func bytesToValues(b []byte) []value {
	out := make([]value, len(b))
	for k, c := range b {
		out[k] = c
	}
	return out
}

// concBytes returns a []byte value as host bytes (symbolic bytes are concretised).
func (i *interpreter) concBytes(v value) []byte {
	vs, _ := v.([]value)
	out := make([]byte, len(vs))
	for k, e := range vs {
		switch e := e.(type) {
		case uint8:
			out[k] = e
		default:
			out[k] = byte(i.concInt(e))
		}
	}
	return out
}

// ---- field tables ----------------------------------------------------------------------------

type jsonField struct {
	path      []int // field indices from the outer struct (embedded structs are flattened)
	name      string
	omitEmpty bool
	typ       types.Type
}

// jsonUnsupported ends the path: a shape the bridge does not model must never be turned into an
// error value the target would go on to handle.
func jsonUnsupported(what string) {
	panic(pathAbort{"unsupported", "encoding/json bridge: " + what})
}

func (i *interpreter) jsonFields(st *types.Struct) ([]jsonField, error) {
	var out []jsonField
	var walk func(st *types.Struct, prefix []int)
	walk = func(st *types.Struct, prefix []int) {
		for k := 0; k < st.NumFields(); k++ {
			f := st.Field(k)
			tag := reflect.StructTag(st.Tag(k)).Get("json")
			path := append(append([]int{}, prefix...), k)
			if f.Embedded() && tag == "" {
				if es, ok := f.Type().Underlying().(*types.Struct); ok {
					walk(es, path) // promoted fields
					continue
				}
				jsonUnsupported("embedded non-struct field " + f.Name())
			}
			if !f.Exported() {
				continue
			}
			if tag == "-" {
				continue
			}
			name := f.Name()
			omit := false
			if tag != "" {
				parts := strings.Split(tag, ",")
				if parts[0] != "" {
					name = parts[0]
				}
				for _, o := range parts[1:] {
					switch o {
					case "omitempty":
						omit = true
					case "string", "omitzero":
						jsonUnsupported("json tag option " + o)
					}
				}
			}
			out = append(out, jsonField{path: path, name: name, omitEmpty: omit, typ: f.Type()})
		}
	}
	walk(st, nil)
	return out, nil
}

// fieldAt / setFieldAt follow a flattened field path inside a struct value.
func fieldAt(sv structure, path []int) value {
	var cur value = sv
	for _, k := range path {
		cur = cur.(structure)[k]
	}
	return cur
}

func setFieldAt(sv structure, path []int, v value) {
	cur := sv
	for _, k := range path[:len(path)-1] {
		cur = cur[k].(structure)
	}
	cur[path[len(path)-1]] = v
}

func isRawMessage(t types.Type) bool {
	n, ok := types.Unalias(t).(*types.Named)
	return ok && n.Obj().Pkg() != nil && n.Obj().Pkg().Path() == "encoding/json" && n.Obj().Name() == "RawMessage"
}

// hasJSONMethods says whether t (or *t) declares its own JSON/text (un)marshalling.
func (i *interpreter) hasJSONMethods(t types.Type) bool {
	if isRawMessage(t) {
		return false
	}
	for _, tt := range []types.Type{t, types.NewPointer(t)} {
		ms := i.prog.MethodSets.MethodSet(tt)
		for _, m := range []string{"MarshalJSON", "UnmarshalJSON", "MarshalText", "UnmarshalText"} {
			if ms.Lookup(nil, m) != nil {
				return true
			}
		}
	}
	return false
}

var _ *ssa.Function

// ---- Marshal: engine value -> host tree ------------------------------------------------------

type orderedObj struct {
	keys []string
	vals []any
}

func (o orderedObj) MarshalJSON() ([]byte, error) {
	var b bytes.Buffer
	b.WriteByte('{')
	for k := range o.keys {
		if k > 0 {
			b.WriteByte(',')
		}
		kb, err := json.Marshal(o.keys[k])
		if err != nil {
			return nil, err
		}
		b.Write(kb)
		b.WriteByte(':')
		vb, err := json.Marshal(o.vals[k])
		if err != nil {
			return nil, err
		}
		b.Write(vb)
	}
	b.WriteByte('}')
	return b.Bytes(), nil
}

func (i *interpreter) jsonEmpty(t types.Type, v value) bool {
	switch u := t.Underlying().(type) {
	case *types.Basic:
		switch x := v.(type) {
		case bool:
			return !x
		case string:
			return x == ""
		case float32:
			return x == 0
		case float64:
			return x == 0
		}
		if isStr(v) {
			return i.concString(v) == ""
		}
		if u.Info()&types.IsInteger != 0 {
			return i.concInt(v) == 0
		}
		if s, ok := v.(sym); ok && u.Kind() == types.Bool {
			return !i.truth(s)
		}
		return false
	case *types.Pointer:
		p, _ := v.(*value)
		return p == nil
	case *types.Interface:
		x, _ := v.(iface)
		return x.t == nil
	case *types.Slice:
		s, _ := v.([]value)
		return len(s) == 0
	case *types.Map:
		m, _ := v.(*gmap)
		return m.len() == 0
	case *types.Array:
		return u.Len() == 0
	}
	return false
}

func (i *interpreter) jsonTree(t types.Type, v value) (any, error) {
	if t == nil {
		return nil, nil
	}
	if i.hasJSONMethods(t) {
		jsonUnsupported(t.String() + " has custom JSON methods")
	}
	if isRawMessage(t) {
		b := i.concBytes(v)
		if b == nil {
			return json.RawMessage("null"), nil
		}
		return json.RawMessage(b), nil
	}
	switch u := t.Underlying().(type) {
	case *types.Basic:
		switch {
		case u.Info()&types.IsBoolean != 0:
			if b, ok := v.(bool); ok {
				return b, nil
			}
			return i.truth(v), nil
		case u.Info()&types.IsString != 0:
			return i.concString(v), nil
		case u.Info()&types.IsFloat != 0:
			switch x := v.(type) {
			case float32:
				return x, nil
			case float64:
				return x, nil
			}
			jsonUnsupported("symbolic float")
		case u.Info()&types.IsUnsigned != 0:
			return uint64(i.concInt(v)), nil
		case u.Info()&types.IsInteger != 0:
			return i.concInt(v), nil
		}
		return nil, fmt.Errorf("json: unsupported type: %s", t)
	case *types.Pointer:
		p, _ := v.(*value)
		if p == nil {
			return nil, nil
		}
		return i.jsonTree(u.Elem(), load(u.Elem(), p))
	case *types.Interface:
		x, _ := v.(iface)
		if x.t == nil {
			return nil, nil
		}
		return i.jsonTree(x.t, x.v)
	case *types.Struct:
		fs, err := i.jsonFields(u)
		if err != nil {
			return nil, err
		}
		sv := v.(structure)
		var o orderedObj
		for _, f := range fs {
			if f.omitEmpty && i.jsonEmpty(f.typ, fieldAt(sv, f.path)) {
				continue
			}
			c, err := i.jsonTree(f.typ, fieldAt(sv, f.path))
			if err != nil {
				return nil, err
			}
			o.keys = append(o.keys, f.name)
			o.vals = append(o.vals, c)
		}
		return o, nil
	case *types.Slice:
		s, _ := v.([]value)
		if s == nil {
			return nil, nil
		}
		if b, ok := u.Elem().Underlying().(*types.Basic); ok && b.Kind() == types.Uint8 {
			return i.concBytes(v), nil // base64, as encoding/json does
		}
		out := make([]any, len(s))
		for k, e := range s {
			c, err := i.jsonTree(u.Elem(), e)
			if err != nil {
				return nil, err
			}
			out[k] = c
		}
		return out, nil
	case *types.Array:
		s := v.(array)
		out := make([]any, len(s))
		for k, e := range s {
			c, err := i.jsonTree(u.Elem(), e)
			if err != nil {
				return nil, err
			}
			out[k] = c
		}
		return out, nil
	case *types.Map:
		m, _ := v.(*gmap)
		if m == nil {
			return nil, nil
		}
		if b, ok := u.Key().Underlying().(*types.Basic); !ok || b.Info()&types.IsString == 0 {
			jsonUnsupported("map key type " + u.Key().String())
		}
		var o orderedObj
		type kv struct {
			k string
			v any
		}
		var kvs []kv
		for _, e := range m.entries {
			if e.deleted {
				continue
			}
			c, err := i.jsonTree(u.Elem(), e.val)
			if err != nil {
				return nil, err
			}
			kvs = append(kvs, kv{i.concString(e.key), c})
		}
		sort.Slice(kvs, func(a, b int) bool { return kvs[a].k < kvs[b].k })
		for _, e := range kvs {
			o.keys = append(o.keys, e.k)
			o.vals = append(o.vals, e.v)
		}
		return o, nil
	}
	return nil, fmt.Errorf("json: unsupported type: %s", t)
}

// ---- Unmarshal: JSON text -> engine value -----------------------------------------------------

func jsonKind(raw []byte) string {
	raw = bytes.TrimSpace(raw)
	if len(raw) == 0 {
		return "invalid"
	}
	switch raw[0] {
	case '{':
		return "object"
	case '[':
		return "array"
	case '"':
		return "string"
	case 't', 'f':
		return "bool"
	case 'n':
		return "null"
	}
	return "number"
}

var emptyIface = types.NewInterfaceType(nil, nil)

// jsonAny converts a decoded host value into an engine interface{} value.
func (i *interpreter) jsonAny(x any) value {
	switch x := x.(type) {
	case nil:
		return iface{}
	case bool:
		return iface{t: types.Typ[types.Bool], v: x}
	case float64:
		return iface{t: types.Typ[types.Float64], v: x}
	case string:
		return iface{t: types.Typ[types.String], v: x}
	case []any:
		out := make([]value, len(x))
		for k, e := range x {
			out[k] = i.jsonAny(e)
		}
		return iface{t: types.NewSlice(emptyIface), v: out}
	case map[string]any:
		m := i.makeMap(types.Typ[types.String])
		keys := make([]string, 0, len(x))
		for k := range x {
			keys = append(keys, k)
		}
		sort.Strings(keys)
		for _, k := range keys {
			m.insert(i, k, i.jsonAny(x[k]))
		}
		return iface{t: types.NewMap(types.Typ[types.String], emptyIface), v: m}
	}
	panic(fmt.Sprintf("jsonAny: %T", x))
}

func intOfKind(k types.BasicKind, n int64) value {
	switch k {
	case types.Int:
		return int(n)
	case types.Int8:
		return int8(n)
	case types.Int16:
		return int16(n)
	case types.Int32:
		return int32(n)
	case types.Int64:
		return n
	case types.Uint:
		return uint(n)
	case types.Uint8:
		return uint8(n)
	case types.Uint16:
		return uint16(n)
	case types.Uint32:
		return uint32(n)
	case types.Uint64:
		return uint64(n)
	case types.Uintptr:
		return uintptr(n)
	}
	return int(n)
}

// jsonDecode returns the value of type t that encoding/json leaves in a destination holding
// cur after decoding raw into it; the first error is returned, decoding continues past it.
func (i *interpreter) jsonDecode(t types.Type, raw []byte, cur value) (value, error) {
	if i.hasJSONMethods(t) {
		jsonUnsupported(t.String() + " has custom JSON methods")
	}
	kind := jsonKind(raw)
	typeErr := func() error {
		return fmt.Errorf("json: cannot unmarshal %s into Go value of type %s", kind, types.TypeString(t, func(p *types.Package) string { return p.Name() }))
	}
	if isRawMessage(t) {
		return bytesToValues(bytes.TrimSpace(raw)), nil
	}
	switch u := t.Underlying().(type) {
	case *types.Interface:
		if u.NumMethods() != 0 {
			if kind == "null" {
				return iface{}, nil
			}
			return nil, typeErr()
		}
		var x any
		if err := json.Unmarshal(raw, &x); err != nil {
			return nil, err
		}
		return i.jsonAny(x), nil
	case *types.Pointer:
		if kind == "null" {
			return (*value)(nil), nil
		}
		p, _ := cur.(*value)
		if p == nil {
			cell := i.zero(u.Elem())
			p = &cell
		}
		nv, err := i.jsonDecode(u.Elem(), raw, load(u.Elem(), p))
		if nv != nil {
			i.store(u.Elem(), p, nv)
		}
		return p, err
	}
	if kind == "null" {
		return nil, nil // null into a non-pointer: no effect, no error
	}
	switch u := t.Underlying().(type) {
	case *types.Basic:
		switch {
		case u.Info()&types.IsBoolean != 0:
			if kind != "bool" {
				return nil, typeErr()
			}
			return bytes.TrimSpace(raw)[0] == 't', nil
		case u.Info()&types.IsString != 0:
			if kind != "string" {
				return nil, typeErr()
			}
			var s string
			if err := json.Unmarshal(raw, &s); err != nil {
				return nil, err
			}
			return s, nil
		case u.Info()&types.IsFloat != 0:
			if kind != "number" {
				return nil, typeErr()
			}
			var f float64
			if err := json.Unmarshal(raw, &f); err != nil {
				return nil, err
			}
			if u.Kind() == types.Float32 {
				return float32(f), nil
			}
			return f, nil
		case u.Info()&types.IsInteger != 0:
			if kind != "number" {
				return nil, typeErr()
			}
			if u.Info()&types.IsUnsigned != 0 {
				var n uint64
				if err := json.Unmarshal(raw, &n); err != nil {
					return nil, fmt.Errorf("json: cannot unmarshal number %s into Go value of type %s", bytes.TrimSpace(raw), u.Name())
				}
				return intOfKind(u.Kind(), int64(n)), nil
			}
			var n int64
			if err := json.Unmarshal(raw, &n); err != nil {
				return nil, fmt.Errorf("json: cannot unmarshal number %s into Go value of type %s", bytes.TrimSpace(raw), u.Name())
			}
			// range check as encoding/json does
			rv := reflect.New(reflect.TypeOf(intOfKind(u.Kind(), 0)))
			if err := json.Unmarshal(raw, rv.Interface()); err != nil {
				return nil, fmt.Errorf("json: cannot unmarshal number %s into Go value of type %s", bytes.TrimSpace(raw), u.Name())
			}
			return intOfKind(u.Kind(), n), nil
		}
		return nil, typeErr()
	case *types.Struct:
		if kind != "object" {
			return nil, typeErr()
		}
		fs, err := i.jsonFields(u)
		if err != nil {
			return nil, err
		}
		var obj map[string]json.RawMessage
		if err := json.Unmarshal(raw, &obj); err != nil {
			return nil, err
		}
		sv := copyVal(cur).(structure)
		keys := make([]string, 0, len(obj))
		for k := range obj {
			keys = append(keys, k)
		}
		sort.Strings(keys)
		var first error
		for _, k := range keys {
			var f *jsonField
			for n := range fs {
				if fs[n].name == k {
					f = &fs[n]
					break
				}
			}
			if f == nil {
				for n := range fs {
					if strings.EqualFold(fs[n].name, k) {
						f = &fs[n]
						break
					}
				}
			}
			if f == nil {
				continue
			}
			nv, err := i.jsonDecode(f.typ, obj[k], fieldAt(sv, f.path))
			if nv != nil {
				setFieldAt(sv, f.path, nv)
			}
			if err != nil && first == nil {
				first = err
			}
		}
		return sv, first
	case *types.Slice:
		if b, ok := u.Elem().Underlying().(*types.Basic); ok && b.Kind() == types.Uint8 && kind == "string" {
			var bs []byte
			if err := json.Unmarshal(raw, &bs); err != nil {
				return nil, err
			}
			return bytesToValues(bs), nil
		}
		if kind != "array" {
			return nil, typeErr()
		}
		var elems []json.RawMessage
		if err := json.Unmarshal(raw, &elems); err != nil {
			return nil, err
		}
		out := make([]value, len(elems))
		var first error
		for k, e := range elems {
			nv, err := i.jsonDecode(u.Elem(), e, i.zero(u.Elem()))
			if nv == nil {
				nv = i.zero(u.Elem())
			}
			out[k] = nv
			if err != nil && first == nil {
				first = err
			}
		}
		return out, first
	case *types.Map:
		if kind != "object" {
			return nil, typeErr()
		}
		var obj map[string]json.RawMessage
		if err := json.Unmarshal(raw, &obj); err != nil {
			return nil, err
		}
		m, _ := cur.(*gmap)
		if m == nil {
			m = i.makeMap(u.Key())
		}
		keys := make([]string, 0, len(obj))
		for k := range obj {
			keys = append(keys, k)
		}
		sort.Strings(keys)
		var first error
		for _, k := range keys {
			nv, err := i.jsonDecode(u.Elem(), obj[k], i.zero(u.Elem()))
			if nv == nil {
				nv = i.zero(u.Elem())
			}
			m.insert(i, k, nv)
			if err != nil && first == nil {
				first = err
			}
		}
		return m, first
	}
	return nil, typeErr()
}
