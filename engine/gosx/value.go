package gosx

// Values (after golang.org/x/tools/go/ssa/interp):
//
// - bool, numbers (all built-in int/float types are distinguished)
// - sym             --- symbolic bool / integer (SMT term)
// - string          --- concrete strings
// - *symstr         --- string of concrete length with symbolic bytes
// - *fdstr          --- finite-domain string: selector term + table of concrete strings
// - *gmap           --- maps
// - chan value
// - []value         --- slices (native header: shared backing array, len, cap)
// - iface           --- interfaces
// - structure       --- structs
// - array           --- arrays
// - *value          --- pointers
// - *symPtr         --- &slice[i] with symbolic i
// - *ssa.Function, *ssa.Builtin, *closure --- functions
// - tuple, iter, **deferred

import (
	"bytes"
	"fmt"
	"go/types"

	"golang.org/x/tools/go/ssa"
)

type value interface{}

type tuple []value

type array []value

type iface struct {
	t types.Type // never an "untyped" type
	v value
}

type structure []value

type iter interface {
	next() tuple
}

type closure struct {
	Fn  *ssa.Function
	Env []value
}

type bad struct{}

// symPtr is the address of base[idx] for a symbolic in-range idx.
type symPtr struct {
	base []value
	idx  *Term // 64-bit
}

func sameType(x, y types.Type) bool {
	if x == nil {
		return y == nil
	}
	return y != nil && types.Identical(x, y)
}

// equalsV returns x == y under Go's equivalence for type t; the result is a
// bool or a symbolic bool.
func (i *interpreter) equalsV(t types.Type, x, y value) value {
	if isSym(x) || isSym(y) {
		tx, _ := i.termOf(x)
		ty, _ := i.termOf(y)
		return lower(types.Bool, i.ts.Cmp(OpEq, tx, ty))
	}
	switch x := x.(type) {
	case bool:
		return x == y.(bool)
	case int:
		return x == y.(int)
	case int8:
		return x == y.(int8)
	case int16:
		return x == y.(int16)
	case int32:
		return x == y.(int32)
	case int64:
		return x == y.(int64)
	case uint:
		return x == y.(uint)
	case uint8:
		return x == y.(uint8)
	case uint16:
		return x == y.(uint16)
	case uint32:
		return x == y.(uint32)
	case uint64:
		return x == y.(uint64)
	case uintptr:
		return x == y.(uintptr)
	case float32:
		return x == y.(float32)
	case float64:
		return x == y.(float64)
	case complex64:
		return x == y.(complex64)
	case complex128:
		return x == y.(complex128)
	case string, *symstr, *fdstr, *ropestr, *decTerm:
		return i.strEq(x, y)
	case *value:
		return x == y.(*value)
	case chan value:
		return x == y.(chan value)
	case structure:
		ys := y.(structure)
		tStruct := t.Underlying().(*types.Struct)
		var acc value = true
		for k, n := 0, tStruct.NumFields(); k < n; k++ {
			f := tStruct.Field(k)
			if f.Name() == "_" {
				continue
			}
			acc = i.andV(acc, i.equalsV(f.Type(), x[k], ys[k]))
			if acc == false {
				return false
			}
		}
		return acc
	case array:
		ya := y.(array)
		tElt := t.Underlying().(*types.Array).Elem()
		var acc value = true
		for k := range x {
			acc = i.andV(acc, i.equalsV(tElt, x[k], ya[k]))
			if acc == false {
				return false
			}
		}
		return acc
	case iface:
		yi := y.(iface)
		if !sameType(x.t, yi.t) {
			return false
		}
		if x.t == nil {
			return true
		}
		if !types.Comparable(x.t) {
			panic(targetPanic{i.runtimeError("comparing uncomparable type " + x.t.String())})
		}
		return i.equalsV(x.t, x.v, yi.v)
	case *symPtr:
		panic(pathAbort{"unsupported", "comparison of symbolic element pointer"})
	}
	panic(fmt.Sprintf("comparing uncomparable type %s (%T)", t, x))
}

func (i *interpreter) andV(a, b value) value {
	if ab, ok := a.(bool); ok {
		if !ab {
			return false
		}
		return b
	}
	if bb, ok := b.(bool); ok {
		if !bb {
			return false
		}
		return a
	}
	return lower(types.Bool, i.ts.And(a.(sym).t, b.(sym).t))
}

func (i *interpreter) orV(a, b value) value {
	if ab, ok := a.(bool); ok {
		if ab {
			return true
		}
		return b
	}
	if bb, ok := b.(bool); ok {
		if bb {
			return true
		}
		return a
	}
	return lower(types.Bool, i.ts.Or(a.(sym).t, b.(sym).t))
}

func (i *interpreter) notV(a value) value {
	if ab, ok := a.(bool); ok {
		return !ab
	}
	return lower(types.Bool, i.ts.Not(a.(sym).t))
}

// load returns the value of type T in *addr.
func load(T types.Type, addr *value) value {
	switch T := T.Underlying().(type) {
	case *types.Struct:
		v := (*addr).(structure)
		a := make(structure, len(v))
		for i := range a {
			a[i] = load(T.Field(i).Type(), &v[i])
		}
		return a
	case *types.Array:
		v := (*addr).(array)
		a := make(array, len(v))
		for i := range a {
			a[i] = load(T.Elem(), &v[i])
		}
		return a
	default:
		return *addr
	}
}

// copyVal copies an aggregate value (structs and arrays are values in Go).
func copyVal(v value) value {
	switch v := v.(type) {
	case structure:
		a := make(structure, len(v))
		for i := range a {
			a[i] = copyVal(v[i])
		}
		return a
	case array:
		a := make(array, len(v))
		for i := range a {
			a[i] = copyVal(v[i])
		}
		return a
	}
	return v
}

// store stores value v of type T into *addr (undo-logged, frozen-checked).
func (i *interpreter) store(T types.Type, addr *value, v value) {
	switch T := T.Underlying().(type) {
	case *types.Struct:
		lhs := (*addr).(structure)
		rhs := v.(structure)
		for k := range lhs {
			i.store(T.Field(k).Type(), &lhs[k], rhs[k])
		}
	case *types.Array:
		lhs := (*addr).(array)
		rhs := v.(array)
		for k := range lhs {
			i.store(T.Elem(), &lhs[k], rhs[k])
		}
	default:
		i.storeCell(addr, v)
	}
}

func (i *interpreter) storeCell(addr *value, v value) {
	if i.frozen != nil {
		if what, ok := i.frozen[addr]; ok {
			i.frozenWrite(addr, what, v)
		}
	}
	if i.epoch {
		i.undoLog = append(i.undoLog, storeRec{addr, *addr})
	}
	*addr = v
}

// storeAt stores through a pointer value which may be a symbolic element pointer.
func (i *interpreter) storeAt(T types.Type, p value, v value) {
	switch p := p.(type) {
	case *value:
		if p == nil {
			panic(targetPanic{i.runtimeError("invalid memory address or nil pointer dereference")})
		}
		i.store(T, p, v)
	case *symPtr:
		k := i.concInt(sym{types.Int, p.idx})
		i.store(T, &p.base[k], v)
	default:
		panic(fmt.Sprintf("storeAt: bad pointer %T", p))
	}
}

// loadAt loads through a pointer value which may be a symbolic element pointer.
func (i *interpreter) loadAt(T types.Type, p value) value {
	switch p := p.(type) {
	case *value:
		if p == nil {
			panic(targetPanic{i.runtimeError("invalid memory address or nil pointer dereference")})
		}
		return load(T, p)
	case *symPtr:
		// scalar elements: ite chain; otherwise concretise the index
		if b, ok := T.Underlying().(*types.Basic); ok && b.Info()&(types.IsInteger|types.IsBoolean) != 0 && len(p.base) <= 512 {
			k := b.Kind()
			w := kindWidth(k)
			var acc *Term
			for j := len(p.base) - 1; j >= 0; j-- {
				ej, _ := i.termOf(p.base[j])
				if acc == nil {
					acc = ej
					continue
				}
				acc = i.ts.Ite(i.ts.Cmp(OpEq, p.idx, i.ts.Const(64, uint64(j))), ej, acc)
			}
			_ = w
			return lower(k, acc)
		}
		k := i.concInt(sym{types.Int, p.idx})
		return load(T, &p.base[k])
	}
	panic(fmt.Sprintf("loadAt: bad pointer %T", p))
}

func writeValue(buf *bytes.Buffer, v value) {
	switch v := v.(type) {
	case nil, bool, int, int8, int16, int32, int64, uint, uint8, uint16, uint32, uint64, uintptr, float32, float64, complex64, complex128, string:
		fmt.Fprintf(buf, "%v", v)
	case sym:
		fmt.Fprintf(buf, "<sym %s>", v.t)
	case *symstr:
		fmt.Fprintf(buf, "<symstr len=%d>", len(v.b))
	case *fdstr:
		fmt.Fprintf(buf, "<fdstr %v>", v.tab)
	case *ropestr:
		fmt.Fprintf(buf, "<rope %d parts>", len(v.parts))
	case *gmap:
		if v == nil {
			buf.WriteString("map[]")
			return
		}
		buf.WriteString("map[")
		sep := ""
		for _, e := range v.entries {
			if e.deleted {
				continue
			}
			buf.WriteString(sep)
			sep = " "
			writeValue(buf, e.key)
			buf.WriteString(":")
			writeValue(buf, e.val)
		}
		buf.WriteString("]")
	case chan value:
		fmt.Fprintf(buf, "%v", v)
	case *value:
		if v == nil {
			buf.WriteString("<nil>")
		} else {
			fmt.Fprintf(buf, "%p", v)
		}
	case iface:
		fmt.Fprintf(buf, "(%s, ", v.t)
		writeValue(buf, v.v)
		buf.WriteString(")")
	case structure:
		buf.WriteString("{")
		for i, e := range v {
			if i > 0 {
				buf.WriteString(" ")
			}
			writeValue(buf, e)
		}
		buf.WriteString("}")
	case array:
		buf.WriteString("[")
		for i, e := range v {
			if i > 0 {
				buf.WriteString(" ")
			}
			writeValue(buf, e)
		}
		buf.WriteString("]")
	case []value:
		buf.WriteString("[")
		for i, e := range v {
			if i > 0 {
				buf.WriteString(" ")
			}
			writeValue(buf, e)
		}
		buf.WriteString("]")
	case *ssa.Function, *ssa.Builtin, *closure:
		fmt.Fprintf(buf, "%p", v)
	case tuple:
		buf.WriteString("(")
		for i, e := range v {
			if i > 0 {
				buf.WriteString(", ")
			}
			writeValue(buf, e)
		}
		buf.WriteString(")")
	default:
		fmt.Fprintf(buf, "<%T>", v)
	}
}

func toString(v value) string {
	var b bytes.Buffer
	writeValue(&b, v)
	return b.String()
}
