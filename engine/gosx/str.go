package gosx

// Strings with symbolic content.

import (
	"fmt"
	"go/types"
	"strings"
	"unicode/utf8"
)

// symstr is an immutable string of concrete length whose bytes are uint8 or sym{Uint8}.
type symstr struct {
	b []value
}

// fdstr is a finite-domain string: tab[sel]. sel is a 16-bit term assumed < len(tab).
type fdstr struct {
	sel *Term
	tab []string
}

// decTerm is a rope part: the decimal rendering of a symbolic integer (opaque).
type decTerm struct {
	k types.BasicKind
	t *Term
}

// ropestr is a concatenation of string values (string, *symstr, *fdstr) that is
// kept unflattened so that building text out of symbolic pieces does not fork.
type ropestr struct {
	parts []value
}

func mkRope(x, y value) value {
	var parts []value
	add := func(v value) {
		if r, ok := v.(*ropestr); ok {
			parts = append(parts, r.parts...)
			return
		}
		if s, ok := v.(string); ok {
			if s == "" {
				return
			}
			if n := len(parts); n > 0 {
				if p, ok := parts[n-1].(string); ok {
					parts[n-1] = p + s
					return
				}
			}
		}
		parts = append(parts, v)
	}
	add(x)
	add(y)
	if len(parts) == 1 {
		return parts[0]
	}
	if len(parts) > 4096 {
		panic(pathAbort{"unsupported", "rope too long"})
	}
	return &ropestr{parts: parts}
}

// mkStr normalises a byte vector to string (all concrete) or *symstr.
func mkStr(b []value) value {
	conc := true
	for _, e := range b {
		if _, ok := e.(uint8); !ok {
			conc = false
			break
		}
	}
	if conc {
		bs := make([]byte, len(b))
		for k, e := range b {
			bs[k] = e.(uint8)
		}
		return string(bs)
	}
	return &symstr{b: b}
}

// strBytes returns the byte vector of a string value (concretising fdstr).
func (i *interpreter) strBytes(v value) []value {
	switch s := v.(type) {
	case string:
		out := make([]value, len(s))
		for k := 0; k < len(s); k++ {
			out[k] = s[k]
		}
		return out
	case *symstr:
		return s.b
	case *fdstr:
		return i.strBytes(i.fdConc(s))
	case *ropestr:
		var out []value
		for _, p := range s.parts {
			out = append(out, i.strBytes(p)...)
		}
		return out
	case *decTerm:
		return i.strBytes(fmt.Sprint(mkScalar(s.k, i.concretize(sym{s.k, s.t}))))
	}
	panic(fmt.Sprintf("strBytes(%T)", v))
}

func isStr(v value) bool {
	switch v.(type) {
	case string, *symstr, *fdstr, *ropestr, *decTerm:
		return true
	}
	return false
}

// fdConc concretises a finite-domain string by forking over its rows.
func (i *interpreter) fdConc(s *fdstr) string {
	k := i.concretize(sym{types.Uint16, s.sel})
	if int(k) >= len(s.tab) {
		panic(pathAbort{"infeasible", "fd selector out of table"})
	}
	return s.tab[k]
}

// fdMap applies f to every row.
func fdMap(s *fdstr, f func(string) string) *fdstr {
	tab := make([]string, len(s.tab))
	for k, r := range s.tab {
		tab[k] = f(r)
	}
	return &fdstr{sel: s.sel, tab: tab}
}

// fdPred returns the term "f(tab[sel])".
func (i *interpreter) fdPred(s *fdstr, f func(string) bool) value {
	acc := i.ts.Bool(false)
	all := true
	for k, r := range s.tab {
		if f(r) {
			acc = i.ts.Or(acc, i.ts.Cmp(OpEq, s.sel, i.ts.Const(16, uint64(k))))
		} else {
			all = false
		}
	}
	if all {
		return true
	}
	return lower(types.Bool, acc)
}

// fdInt returns the integer term f(tab[sel]).
func (i *interpreter) fdInt(s *fdstr, f func(string) int64) value {
	vals := make([]int64, len(s.tab))
	for k, r := range s.tab {
		vals[k] = f(r)
	}
	return lower(types.Int, i.selectInt(s.sel, vals))
}

// rowSet returns the condition "sel is one of rows" as a disjunction of ranges.
func (i *interpreter) rowSet(sel *Term, rows []int) *Term {
	ts := i.ts
	acc := ts.Bool(false)
	for k := 0; k < len(rows); {
		j := k
		for j+1 < len(rows) && rows[j+1] == rows[j]+1 {
			j++
		}
		lo, hi := uint64(rows[k]), uint64(rows[j])
		if lo == hi {
			acc = ts.Or(acc, ts.Cmp(OpEq, sel, ts.Const(sel.w, lo)))
		} else {
			acc = ts.Or(acc, ts.And(ts.Cmp(OpUle, ts.Const(sel.w, lo), sel), ts.Cmp(OpUle, sel, ts.Const(sel.w, hi))))
		}
		k = j + 1
	}
	return acc
}

// selectInt builds vals[sel] as a 64-bit term with one ite per distinct value.
func (i *interpreter) selectInt(sel *Term, vals []int64) *Term {
	groups := map[int64][]int{}
	var order []int64
	for k, v := range vals {
		if _, ok := groups[v]; !ok {
			order = append(order, v)
		}
		groups[v] = append(groups[v], k)
	}
	// largest group last (becomes the default leaf)
	best := 0
	for k, v := range order {
		if len(groups[v]) > len(groups[order[best]]) {
			best = k
		}
	}
	order[best], order[len(order)-1] = order[len(order)-1], order[best]
	var acc *Term
	for k := len(order) - 1; k >= 0; k-- {
		c := i.ts.Const(64, uint64(order[k]))
		if acc == nil {
			acc = c
			continue
		}
		acc = i.ts.Ite(i.rowSet(sel, groups[order[k]]), c, acc)
	}
	return acc
}

func (i *interpreter) strLen(v value) value {
	switch s := v.(type) {
	case string:
		return len(s)
	case *symstr:
		return len(s.b)
	case *fdstr:
		return i.fdInt(s, func(r string) int64 { return int64(len(r)) })
	case *ropestr:
		var acc value = 0
		for _, p := range s.parts {
			acc = i.binop(tokenADD, nil, acc, i.strLen(p))
		}
		return acc
	case *decTerm:
		return len(i.concString(s))
	}
	panic(fmt.Sprintf("strLen(%T)", v))
}

// strEq returns x == y as bool or sym.
func (i *interpreter) strEq(x, y value) value {
	if d, ok := x.(*decTerm); ok {
		x = i.concString(d)
	}
	if d, ok := y.(*decTerm); ok {
		y = i.concString(d)
	}
	if r, ok := x.(*ropestr); ok {
		x = mkStr(i.strBytes(r))
	}
	if r, ok := y.(*ropestr); ok {
		y = mkStr(i.strBytes(r))
	}
	if fx, ok := x.(*fdstr); ok {
		if fy, ok := y.(*fdstr); ok {
			if fx.sel == fy.sel {
				acc := i.ts.Bool(false)
				for k := range fx.tab {
					if k < len(fy.tab) && fx.tab[k] == fy.tab[k] {
						acc = i.ts.Or(acc, i.ts.Cmp(OpEq, fx.sel, i.ts.Const(16, uint64(k))))
					}
				}
				return lower(types.Bool, acc)
			}
			acc := i.ts.Bool(false)
			for a, ra := range fx.tab {
				for b, rb := range fy.tab {
					if ra == rb {
						acc = i.ts.Or(acc, i.ts.And(i.ts.Cmp(OpEq, fx.sel, i.ts.Const(16, uint64(a))), i.ts.Cmp(OpEq, fy.sel, i.ts.Const(16, uint64(b)))))
					}
				}
			}
			return lower(types.Bool, acc)
		}
		if ys, ok := y.(string); ok {
			return i.fdPred(fx, func(r string) bool { return r == ys })
		}
		// symstr: compare against each row
		acc := i.ts.Bool(false)
		for k, r := range fx.tab {
			e := i.strEq(r, y)
			et := i.boolTerm(e)
			acc = i.ts.Or(acc, i.ts.And(i.ts.Cmp(OpEq, fx.sel, i.ts.Const(16, uint64(k))), et))
		}
		return lower(types.Bool, acc)
	}
	if _, ok := y.(*fdstr); ok {
		return i.strEq(y, x)
	}
	if xs, ok := x.(string); ok {
		if ys, ok := y.(string); ok {
			return xs == ys
		}
	}
	bx, by := i.strBytes(x), i.strBytes(y)
	if len(bx) != len(by) {
		return false
	}
	acc := i.ts.Bool(true)
	for k := range bx {
		ex, ey := bx[k], by[k]
		if cx, ok := ex.(uint8); ok {
			if cy, ok := ey.(uint8); ok {
				if cx != cy {
					return false
				}
				continue
			}
		}
		tx, _ := i.termOf(ex)
		ty, _ := i.termOf(ey)
		acc = i.ts.And(acc, i.ts.Cmp(OpEq, tx, ty))
		if acc.op == OpFalse {
			return false
		}
	}
	return lower(types.Bool, acc)
}

// strLess returns x < y (lexicographic) as bool or sym.
func (i *interpreter) strLess(x, y value) value {
	if xs, ok := x.(string); ok {
		if ys, ok := y.(string); ok {
			return xs < ys
		}
	}
	bx, by := i.strBytes(x), i.strBytes(y)
	n := len(bx)
	if len(by) < n {
		n = len(by)
	}
	// result = exists k: prefix equal up to k and bx[k] < by[k]; or all n equal and len(bx) < len(by)
	res := i.ts.Bool(len(bx) < len(by))
	for k := n - 1; k >= 0; k-- {
		tx, _ := i.termOf(bx[k])
		ty, _ := i.termOf(by[k])
		lt := i.ts.Cmp(OpUlt, tx, ty)
		eq := i.ts.Cmp(OpEq, tx, ty)
		res = i.ts.Or(lt, i.ts.And(eq, res))
	}
	return lower(types.Bool, res)
}

func (i *interpreter) strConcat(x, y value) value {
	if xs, ok := x.(string); ok {
		if ys, ok := y.(string); ok {
			return xs + ys
		}
		if xs == "" {
			return y
		}
	}
	if ys, ok := y.(string); ok && ys == "" {
		return x
	}
	// fd ⊕ concrete stays fd
	if fx, ok := x.(*fdstr); ok {
		if ys, ok := y.(string); ok {
			return fdMap(fx, func(r string) string { return r + ys })
		}
	}
	if fy, ok := y.(*fdstr); ok {
		if xs, ok := x.(string); ok {
			return fdMap(fy, func(r string) string { return xs + r })
		}
	}
	if fx, ok := x.(*fdstr); ok {
		if fy, ok := y.(*fdstr); ok {
			if r := i.fdConcat(fx, fy); r != nil {
				return r
			}
		}
	}
	if _, ok := x.(*decTerm); ok {
		return mkRope(x, y)
	}
	if _, ok := y.(*decTerm); ok {
		return mkRope(x, y)
	}
	_, xs := x.(*symstr)
	_, ys := y.(*symstr)
	_, xc := x.(string)
	_, yc := y.(string)
	if (xs || xc) && (ys || yc) {
		bx, by := i.strBytes(x), i.strBytes(y)
		out := make([]value, 0, len(bx)+len(by))
		out = append(out, bx...)
		out = append(out, by...)
		return mkStr(out)
	}
	return mkRope(x, y)
}

// fdConcat concatenates two finite-domain strings: row-wise for a shared
// selector, as a product table (combined selector) otherwise.
func (i *interpreter) fdConcat(fx, fy *fdstr) value {
	if fx.sel == fy.sel && len(fx.tab) == len(fy.tab) {
		tab := make([]string, len(fx.tab))
		for k := range tab {
			tab[k] = fx.tab[k] + fy.tab[k]
		}
		return &fdstr{sel: fx.sel, tab: tab}
	}
	n1, n2 := len(fx.tab), len(fy.tab)
	if n1*n2 > 4096 {
		return nil
	}
	tab := make([]string, 0, n1*n2)
	for _, a := range fx.tab {
		for _, b := range fy.tab {
			tab = append(tab, a+b)
		}
	}
	ts := i.ts
	sel := ts.Bin(OpAdd, ts.Bin(OpMul, fx.sel, ts.Const(16, uint64(n2))), fy.sel)
	return &fdstr{sel: sel, tab: tab}
}

// strIndex returns s[idx] with bounds check.
func (i *interpreter) strIndex(s value, idx value) value {
	b := i.strBytes(s)
	k := i.checkIndex(idx, len(b))
	if k >= 0 {
		return b[k]
	}
	// symbolic in-range index: ite chain
	it := i.asTerm64(idx)
	var acc *Term
	for j := len(b) - 1; j >= 0; j-- {
		ej, _ := i.termOf(b[j])
		if acc == nil {
			acc = ej
			continue
		}
		acc = i.ts.Ite(i.ts.Cmp(OpEq, it, i.ts.Const(64, uint64(j))), ej, acc)
	}
	return lower(types.Uint8, acc)
}

// checkIndex performs the bounds check of an index against n. It returns the
// concrete index, or -1 if the index is symbolic (and proven in range on this path).
func (i *interpreter) checkIndex(idx value, n int) int {
	if s, ok := idx.(sym); ok {
		t := i.asTerm64(s)
		inRange := i.ts.Cmp(OpUlt, t, i.ts.Const(64, uint64(n)))
		if !i.branch(inRange) {
			panic(targetPanic{i.runtimeError(fmt.Sprintf("index out of range [symbolic] with length %d", n))})
		}
		if n == 1 {
			return 0
		}
		return -1
	}
	k := asInt64(idx)
	if k < 0 || k >= int64(n) {
		panic(targetPanic{i.runtimeError(fmt.Sprintf("index out of range [%d] with length %d", k, n))})
	}
	return int(k)
}

// symstrIter ranges over a string with possibly symbolic bytes, decoding UTF-8
// with the same rules as the runtime (forks on the encoding class).
type symstrIter struct {
	i   *interpreter
	b   []value
	pos int
}

func (it *symstrIter) next() tuple {
	if it.pos >= len(it.b) {
		return tuple{false, nil, nil}
	}
	r, size := it.i.decodeRune(it.b[it.pos:])
	p := it.pos
	it.pos += size
	return tuple{true, p, r}
}

// decodeRune decodes the first UTF-8 sequence of b (len(b) > 0). The returned
// rune may be symbolic; the size is concrete (the engine forks on the class).
func (i *interpreter) decodeRune(b []value) (value, int) {
	// fast path: all needed bytes concrete
	conc := true
	n := len(b)
	if n > 4 {
		n = 4
	}
	var buf [4]byte
	for k := 0; k < n; k++ {
		c, ok := b[k].(uint8)
		if !ok {
			conc = false
			break
		}
		buf[k] = c
	}
	if conc {
		r, size := utf8.DecodeRune(buf[:n])
		return r, size
	}
	ts := i.ts
	b0, _ := i.termOf(b[0])
	c8 := func(v uint64) *Term { return ts.Const(8, v) }
	if i.branch(ts.Cmp(OpUlt, b0, c8(0x80))) {
		return lower(types.Int32, ts.ZExt(b0, 32)), 1
	}
	errRune := func() (value, int) { return rune(utf8.RuneError), 1 }
	// invalid leading byte: < 0xC2 or > 0xF4
	if i.branch(ts.Or(ts.Cmp(OpUlt, b0, c8(0xC2)), ts.Cmp(OpUlt, c8(0xF4), b0))) {
		return errRune()
	}
	if len(b) < 2 {
		return errRune()
	}
	b1, _ := i.termOf(b[1])
	z32 := func(t *Term, m uint64, sh uint64) *Term {
		x := ts.ZExt(ts.Bin(OpAnd, t, c8(m)), 32)
		if sh == 0 {
			return x
		}
		return ts.Bin(OpShl, x, ts.Const(32, sh))
	}
	cont := func(t *Term) *Term { // 0x80 <= t <= 0xBF
		return ts.And(ts.Cmp(OpUle, c8(0x80), t), ts.Cmp(OpUle, t, c8(0xBF)))
	}
	if i.branch(ts.Cmp(OpUlt, b0, c8(0xE0))) { // 2-byte
		if !i.branch(cont(b1)) {
			return errRune()
		}
		r := ts.Bin(OpOr, z32(b0, 0x1F, 6), z32(b1, 0x3F, 0))
		return lower(types.Int32, r), 2
	}
	if i.branch(ts.Cmp(OpUlt, b0, c8(0xF0))) { // 3-byte
		// second byte range depends on b0: E0: A0..BF, ED: 80..9F, else 80..BF
		lo := ts.Ite(ts.Cmp(OpEq, b0, c8(0xE0)), c8(0xA0), c8(0x80))
		hi := ts.Ite(ts.Cmp(OpEq, b0, c8(0xED)), c8(0x9F), c8(0xBF))
		if !i.branch(ts.And(ts.Cmp(OpUle, lo, b1), ts.Cmp(OpUle, b1, hi))) {
			return errRune()
		}
		if len(b) < 3 {
			return errRune()
		}
		b2, _ := i.termOf(b[2])
		if !i.branch(cont(b2)) {
			return errRune()
		}
		r := ts.Bin(OpOr, ts.Bin(OpOr, z32(b0, 0x0F, 12), z32(b1, 0x3F, 6)), z32(b2, 0x3F, 0))
		return lower(types.Int32, r), 3
	}
	// 4-byte: F0: 90..BF, F4: 80..8F, else 80..BF
	lo := ts.Ite(ts.Cmp(OpEq, b0, c8(0xF0)), c8(0x90), c8(0x80))
	hi := ts.Ite(ts.Cmp(OpEq, b0, c8(0xF4)), c8(0x8F), c8(0xBF))
	if !i.branch(ts.And(ts.Cmp(OpUle, lo, b1), ts.Cmp(OpUle, b1, hi))) {
		return errRune()
	}
	if len(b) < 3 {
		return errRune()
	}
	b2, _ := i.termOf(b[2])
	if !i.branch(cont(b2)) {
		return errRune()
	}
	if len(b) < 4 {
		return errRune()
	}
	b3, _ := i.termOf(b[3])
	if !i.branch(cont(b3)) {
		return errRune()
	}
	r := ts.Bin(OpOr, ts.Bin(OpOr, z32(b0, 0x07, 18), z32(b1, 0x3F, 12)), ts.Bin(OpOr, z32(b2, 0x3F, 6), z32(b3, 0x3F, 0)))
	return lower(types.Int32, r), 4
}

// encodeRune returns the UTF-8 encoding of a (possibly symbolic) rune.
func (i *interpreter) encodeRune(r value) []value {
	s, ok := r.(sym)
	if !ok {
		var buf [4]byte
		rr := rune(asInt64(r))
		n := utf8.EncodeRune(buf[:], rr)
		out := make([]value, n)
		for k := 0; k < n; k++ {
			out[k] = buf[k]
		}
		return out
	}
	ts := i.ts
	t := s.t
	if s.t.w != 32 {
		if kindSigned(s.k) {
			t = ts.SExt(s.t, 32)
		} else {
			t = ts.ZExt(s.t, 32)
		}
		if s.t.w > 32 {
			t = ts.Extract(s.t, 0, 32)
		}
	}
	c32 := func(v uint64) *Term { return ts.Const(32, v) }
	byteOf := func(sh uint64, m uint64, or uint64) value {
		x := ts.Bin(OpLShr, t, c32(sh))
		x = ts.Bin(OpAnd, x, c32(m))
		x = ts.Bin(OpOr, x, c32(or))
		return lower(types.Uint8, ts.Extract(x, 0, 8))
	}
	if i.branch(ts.Cmp(OpUlt, t, c32(0x80))) {
		return []value{lower(types.Uint8, ts.Extract(t, 0, 8))}
	}
	if i.branch(ts.Cmp(OpUlt, t, c32(0x800))) {
		return []value{byteOf(6, 0x1F, 0xC0), byteOf(0, 0x3F, 0x80)}
	}
	// invalid: surrogates or > 0x10FFFF (incl. negative) => U+FFFD
	surr := ts.And(ts.Cmp(OpUle, c32(0xD800), t), ts.Cmp(OpUle, t, c32(0xDFFF)))
	if i.branch(ts.Or(surr, ts.Cmp(OpUlt, c32(0x10FFFF), t))) {
		return []value{uint8(0xEF), uint8(0xBF), uint8(0xBD)}
	}
	if i.branch(ts.Cmp(OpUlt, t, c32(0x10000))) {
		return []value{byteOf(12, 0x0F, 0xE0), byteOf(6, 0x3F, 0x80), byteOf(0, 0x3F, 0x80)}
	}
	return []value{byteOf(18, 0x07, 0xF0), byteOf(12, 0x3F, 0x80), byteOf(6, 0x3F, 0x80), byteOf(0, 0x3F, 0x80)}
}

// showString renders a string value for messages (symbolic bytes under the model).
func (i *interpreter) showString(v value) string {
	switch s := v.(type) {
	case string:
		return s
	case *symstr:
		var sb strings.Builder
		for _, e := range s.b {
			if c, ok := e.(uint8); ok {
				sb.WriteByte(c)
			} else {
				sb.WriteByte(byte(i.evalTerm(e.(sym).t)))
			}
		}
		return sb.String()
	case *fdstr:
		k := i.evalTerm(s.sel)
		if int(k) < len(s.tab) {
			return s.tab[k]
		}
		return "<fd?>"
	case *ropestr:
		var sb strings.Builder
		for _, p := range s.parts {
			sb.WriteString(i.showString(p))
		}
		return sb.String()
	case *decTerm:
		return fmt.Sprint(mkScalar(s.k, i.evalTerm(s.t)))
	}
	return fmt.Sprintf("<%T>", v)
}

// concString forces a fully concrete string (forking over symbolic bytes).
func (i *interpreter) concString(v value) string {
	switch s := v.(type) {
	case string:
		return s
	case *fdstr:
		return i.fdConc(s)
	case *symstr:
		bs := make([]byte, len(s.b))
		for k, e := range s.b {
			if c, ok := e.(uint8); ok {
				bs[k] = c
			} else {
				bs[k] = byte(i.concretize(e.(sym)))
			}
		}
		return string(bs)
	case *ropestr:
		out := ""
		for _, p := range s.parts {
			out += i.concString(p)
		}
		return out
	case *decTerm:
		return fmt.Sprint(mkScalar(s.k, i.concretize(sym{s.k, s.t})))
	}
	panic(fmt.Sprintf("concString(%T)", v))
}
