package gosx

// One long-lived SMT solver process per worker, spoken to over a pipe.
// Any "(error" line, or an answer other than sat/unsat, is inconclusive.

import (
	"bufio"
	"fmt"
	"io"
	"os"
	"os/exec"
	"strconv"
	"strings"
	"time"
)

type Solver struct {
	cmd     *exec.Cmd
	in      io.WriteCloser
	out     *bufio.Reader
	argv    []string
	Queries int
	Sat     int
	Unsat   int
	Unknown int
	Time    time.Duration
	timeout int // ms per query
	log     io.Writer

	// incremental state: one solver frame per path-condition conjunct
	frames       []sframe
	have         map[string]int // defined name -> frame index
	declared     map[string]int // declared var -> frame index
	sinceRestart int
}

var restartEvery = 150

// phase timers (debug)
var PhaseBuild, PhaseSat time.Duration

type sframe struct {
	root string
	defs []string
	vars []string
}

func NewSolver(argv []string, timeoutMs int) (*Solver, error) {
	s := &Solver{argv: argv, timeout: timeoutMs}
	if err := s.start(); err != nil {
		return nil, err
	}
	return s, nil
}

func (s *Solver) start() error {
	s.cmd = exec.Command(s.argv[0], s.argv[1:]...)
	in, err := s.cmd.StdinPipe()
	if err != nil {
		return err
	}
	out, err := s.cmd.StdoutPipe()
	if err != nil {
		return err
	}
	s.cmd.Stderr = s.cmd.Stdout
	if err := s.cmd.Start(); err != nil {
		return err
	}
	s.in = in
	s.out = bufio.NewReaderSize(out, 1<<16)
	s.frames = nil
	s.sinceRestart = 0
	s.have = map[string]int{}
	s.declared = map[string]int{}
	if strings.Contains(s.argv[0], "z3") {
		fmt.Fprintf(s.in, "(set-option :timeout %d)\n", s.timeout)
	}
	fmt.Fprintf(s.in, "(set-option :produce-models true)\n")
	return nil
}

func (s *Solver) Close() {
	if s.cmd != nil {
		s.in.Close()
		s.cmd.Process.Kill()
		s.cmd.Wait()
		s.cmd = nil
	}
}

func (s *Solver) restart() {
	s.Close()
	s.start()
}

type SatResult int

const (
	ResUnsat SatResult = iota
	ResSat
	ResUnknown
)

// Check decides pc ∧ extra. The solver's assertion stack mirrors pc (one frame
// per conjunct, identified by structural hash), so consecutive queries of a
// depth-first exploration only transmit what changed.
func (s *Solver) Check(vars []*Term, asserts []*Term) (SatResult, []uint64) {
	t0 := time.Now()
	defer func() { s.Time += time.Since(t0) }()
	s.Queries++
	if s.sinceRestart++; s.sinceRestart >= restartEvery {
		// z3's incremental mode slows down as popped definitions accumulate
		s.restart()
	}
	if len(asserts) == 0 {
		s.Sat++
		return ResSat, make([]uint64, len(vars))
	}
	pc, extra := asserts[:len(asserts)-1], asserts[len(asserts)-1]
	var sb strings.Builder
	p := &smtPrinter{sb: &sb, defined: map[int]bool{}, canon: true, have: s.have, declared: s.declared}
	// common prefix
	L := 0
	for L < len(s.frames) && L < len(pc) && s.frames[L].root == p.ref(pc[L]) {
		L++
	}
	if n := len(s.frames) - L; n > 0 {
		fmt.Fprintf(&sb, "(pop %d)\n", n)
		for k := L; k < len(s.frames); k++ {
			for _, d := range s.frames[k].defs {
				delete(s.have, d)
			}
			for _, v := range s.frames[k].vars {
				delete(s.declared, v)
			}
		}
		s.frames = s.frames[:L]
	}
	emit := func(t *Term, idx int) sframe {
		sb.WriteString("(push 1)\n")
		p.newDef, p.newVar = nil, nil
		p.define(t)
		fmt.Fprintf(&sb, "(assert %s)\n", p.ref(t))
		f := sframe{root: p.ref(t)}
		for _, d := range p.newDef {
			s.have[d] = idx
			f.defs = append(f.defs, d)
		}
		for _, v := range p.newVar {
			s.declared[v.name] = idx
			f.vars = append(f.vars, v.name)
		}
		return f
	}
	for k := L; k < len(pc); k++ {
		s.frames = append(s.frames, emit(pc[k], k))
	}
	xf := emit(extra, len(pc))
	sb.WriteString("(check-sat)\n")
	popExtra := func() {
		for _, d := range xf.defs {
			delete(s.have, d)
		}
		for _, v := range xf.vars {
			delete(s.declared, v)
		}
	}
	if _, err := io.WriteString(s.in, sb.String()); err != nil {
		s.restart()
		s.Unknown++
		return ResUnknown, nil
	}
	tBuild := time.Since(t0)
	line, err := s.readLine()
	tSat := time.Since(t0) - tBuild
	PhaseBuild += tBuild
	PhaseSat += tSat
	if debugOn && time.Since(t0) > 20*time.Millisecond {
		fmt.Fprintf(os.Stderr, "gosx: slow query %d: %d bytes, %d frames, %v -> %s\n", s.Queries, sb.Len(), len(s.frames), time.Since(t0), line)
		if os.Getenv("GOSX_DUMPQ") != "" {
			os.WriteFile(fmt.Sprintf("/tmp/slowq_%d.smt2", s.Queries), []byte(sb.String()), 0644)
		}
	}
	if err != nil {
		s.restart()
		s.Unknown++
		return ResUnknown, nil
	}
	switch line {
	case "unsat":
		io.WriteString(s.in, "(pop 1)\n")
		popExtra()
		s.Unsat++
		return ResUnsat, nil
	case "sat":
		model := make([]uint64, len(vars))
		var ask []*Term
		for _, v := range vars {
			if _, ok := s.declared[v.name]; ok {
				ask = append(ask, v)
			}
		}
		if len(ask) > 0 {
			var gv strings.Builder
			gv.WriteString("(get-value (")
			for _, v := range ask {
				gv.WriteString(v.name)
				gv.WriteByte(' ')
			}
			gv.WriteString("))\n(pop 1)\n(echo \"<done>\")\n")
			io.WriteString(s.in, gv.String())
			var all strings.Builder
			for {
				l, err := s.readLine()
				if err != nil {
					s.restart()
					s.Unknown++
					return ResUnknown, nil
				}
				if l == "<done>" || l == "\"<done>\"" {
					break
				}
				all.WriteString(l)
				all.WriteByte(' ')
			}
			popExtra()
			txt := all.String()
			if strings.Contains(txt, "(error") {
				s.restart()
				s.Unknown++
				return ResUnknown, nil
			}
			vals := parseValues(txt, ask)
			if vals == nil {
				s.restart()
				s.Unknown++
				return ResUnknown, nil
			}
			for k, v := range ask {
				model[int(v.val)] = vals[k]
			}
		} else {
			io.WriteString(s.in, "(pop 1)\n")
			popExtra()
		}
		s.Sat++
		return ResSat, model
	default:
		// unknown, timeout, or (error ...): resynchronise by restarting
		if debugOn {
			fmt.Fprintf(os.Stderr, "gosx: solver said %q\n", line)
		}
		s.restart()
		s.Unknown++
		return ResUnknown, nil
	}
}

// LogStandalone appends a self-contained rendering of a query (for cross-checking
// by other solvers).
func (s *Solver) LogStandalone(vars []*Term, asserts []*Term, tag string) {
	if s.log == nil {
		return
	}
	fmt.Fprintf(s.log, "; %s\n(push 1)\n%s(check-sat)\n(pop 1)\n", tag, PrintQuery(vars, asserts))
}

func (s *Solver) readLine() (string, error) {
	for {
		l, err := s.out.ReadString('\n')
		if err != nil {
			return "", err
		}
		l = strings.TrimSpace(l)
		if l == "" {
			continue
		}
		return l, nil
	}
}

// parseValues parses "((v0 #x41) (v1 true) (v2 (_ bv3 5)))".
func parseValues(txt string, vars []*Term) []uint64 {
	model := make([]uint64, len(vars))
	idx := map[string]int{}
	for i, v := range vars {
		idx[v.name] = i
	}
	toks := tokenizeSexp(txt)
	// pattern: ( name value )
	n := 0
	for i := 0; i < len(toks); i++ {
		if toks[i] != "(" || i+1 >= len(toks) {
			continue
		}
		name := toks[i+1]
		k, ok := idx[name]
		if !ok {
			continue
		}
		j := i + 2
		if j >= len(toks) {
			return nil
		}
		var val uint64
		switch {
		case strings.HasPrefix(toks[j], "#x"):
			v, err := strconv.ParseUint(toks[j][2:], 16, 64)
			if err != nil {
				return nil
			}
			val = v
		case strings.HasPrefix(toks[j], "#b"):
			v, err := strconv.ParseUint(toks[j][2:], 2, 64)
			if err != nil {
				return nil
			}
			val = v
		case toks[j] == "true":
			val = 1
		case toks[j] == "false":
			val = 0
		case toks[j] == "(" && j+2 < len(toks) && toks[j+1] == "_" && strings.HasPrefix(toks[j+2], "bv"):
			v, err := strconv.ParseUint(toks[j+2][2:], 10, 64)
			if err != nil {
				return nil
			}
			val = v
		default:
			return nil
		}
		model[k] = val
		n++
	}
	if n != len(vars) {
		return nil
	}
	return model
}

func tokenizeSexp(s string) []string {
	var toks []string
	i := 0
	for i < len(s) {
		c := s[i]
		switch {
		case c == '(' || c == ')':
			toks = append(toks, string(c))
			i++
		case c == ' ' || c == '\n' || c == '\t' || c == '\r':
			i++
		default:
			j := i
			for j < len(s) && s[j] != '(' && s[j] != ')' && s[j] != ' ' && s[j] != '\n' && s[j] != '\t' {
				j++
			}
			toks = append(toks, s[i:j])
			i = j
		}
	}
	return toks
}
