package gosx

// Happens-before race monitor for scheduler mode (vx.RaceMonitor). Vector clocks per target
// goroutine; synchronisation edges: go statement (fork), WaitGroup.Wait (join of finished
// goroutines), mutex unlock -> lock, atomic operation -> atomic operation on the same word
// (sequentially consistent atomics), sync.Once completion -> every Do, sync.Pool Put -> Get.
// Memory accesses checked: every load and store the target performs through a pointer, map
// reads / writes / iteration (the map as one location). Two accesses to the same location
// conflict when at least one writes, they are not both atomic, they come from different
// goroutines and neither happens before the other - on the interleaving being explored; one
// interleaving suffices to expose a pair that no synchronisation orders.

import (
	"fmt"
	"go/token"
)

const raceMaxG = 16

type raceAcc struct {
	gid, clk int
	atomic   bool
	pos      token.Pos
}

type raceCell struct {
	w     *raceAcc
	reads []raceAcc
}

type raceState struct {
	id       string
	vcs      [raceMaxG][]int
	syncVC   map[interface{}][]int
	cells    map[interface{}]*raceCell
	final    map[int][]int
	reported map[string]bool
}

func newRaceState(id string) *raceState {
	return &raceState{id: id, syncVC: map[interface{}][]int{}, cells: map[interface{}]*raceCell{}, final: map[int][]int{}, reported: map[string]bool{}}
}

func (r *raceState) vc(g int) []int {
	if r.vcs[g] == nil {
		r.vcs[g] = make([]int, raceMaxG)
		r.vcs[g][g] = 1
	}
	return r.vcs[g]
}

func vcJoin(dst, src []int) {
	for k := range src {
		if src[k] > dst[k] {
			dst[k] = src[k]
		}
	}
}

func (i *interpreter) raceOn() bool { return i.race != nil && i.sch != nil && len(i.sch.gs) > 1 }

func (i *interpreter) raceFork(parent, child int) {
	if i.race == nil {
		return
	}
	r := i.race
	p := r.vc(parent)
	c := make([]int, raceMaxG)
	copy(c, p)
	c[child] = 1
	r.vcs[child] = c
	p[parent]++
}

func (i *interpreter) raceExit(g int) {
	if i.race == nil {
		return
	}
	f := make([]int, raceMaxG)
	copy(f, i.race.vc(g))
	i.race.final[g] = f
}

func (i *interpreter) raceJoinFinished(me int) {
	if i.race == nil {
		return
	}
	for _, f := range i.race.final {
		vcJoin(i.race.vc(me), f)
	}
}

// raceAcquire / raceRelease: synchronisation through the object key.
func (i *interpreter) raceAcquire(key interface{}) {
	if !i.raceOn() {
		return
	}
	if v, ok := i.race.syncVC[key]; ok {
		vcJoin(i.race.vc(i.sch.cur.id), v)
	}
}

func (i *interpreter) raceRelease(key interface{}) {
	if !i.raceOn() {
		return
	}
	me := i.sch.cur.id
	c := i.race.vc(me)
	v, ok := i.race.syncVC[key]
	if !ok {
		v = make([]int, raceMaxG)
		i.race.syncVC[key] = v
	}
	vcJoin(v, c)
	c[me]++
}

// raceAccess records an access of the current goroutine and reports conflicts.
func (i *interpreter) raceAccess(key interface{}, write, atomic bool, pos token.Pos) {
	if !i.raceOn() || key == nil {
		return
	}
	switch k := key.(type) {
	case *value:
		if k == nil {
			return
		}
	case *gmap:
		if k == nil {
			return
		}
	case *symPtr:
		return
	}
	r := i.race
	t := i.sch.cur.id
	C := r.vc(t)
	c := r.cells[key]
	if c == nil {
		c = &raceCell{}
		r.cells[key] = c
	}
	conflict := func(a raceAcc) bool { return a.gid != t && a.clk > C[a.gid] && !(a.atomic && atomic) }
	report := func(a raceAcc, kind string) {
		p1, p2 := i.prog.Fset.Position(a.pos), i.prog.Fset.Position(pos)
		key := fmt.Sprintf("%s:%d|%s:%d", p1.Filename, p1.Line, p2.Filename, p2.Line)
		if r.reported[key] {
			return
		}
		r.reported[key] = true
		i.violation(r.id, fmt.Sprintf("data race (%s): goroutine %d at %s:%d and goroutine %d at %s:%d access the same location with no happens-before order", kind, a.gid, shortFile(p1.Filename), p1.Line, t, shortFile(p2.Filename), p2.Line), i.tape())
	}
	if c.w != nil && conflict(*c.w) {
		if write {
			report(*c.w, "write/write")
		} else {
			report(*c.w, "write/read")
		}
	}
	if write {
		for _, rd := range c.reads {
			if conflict(rd) {
				report(rd, "read/write")
			}
		}
		c.w = &raceAcc{gid: t, clk: C[t], atomic: atomic, pos: pos}
		c.reads = c.reads[:0]
		return
	}
	for k := range c.reads {
		if c.reads[k].gid == t {
			c.reads[k] = raceAcc{gid: t, clk: C[t], atomic: atomic, pos: pos}
			return
		}
	}
	c.reads = append(c.reads, raceAcc{gid: t, clk: C[t], atomic: atomic, pos: pos})
}

func shortFile(f string) string {
	for k := len(f) - 1; k >= 0; k-- {
		if f[k] == '/' {
			n := 0
			for j := k - 1; j >= 0; j-- {
				if f[j] == '/' {
					n++
					if n == 2 {
						return f[j+1:]
					}
				}
			}
			return f
		}
	}
	return f
}

// raceAtomic: an atomic operation on word p - ordered after every earlier atomic operation on
// the same word, and an atomic access for the conflict check (atomic vs plain still conflicts).
func (i *interpreter) raceAtomic(p value, write bool) {
	if !i.raceOn() {
		return
	}
	i.raceAcquire(p)
	pos := token.NoPos
	if fr := i.curFrame; fr != nil && fr.cur != nil {
		pos = fr.cur.Pos()
		if !pos.IsValid() && fr.caller != nil && fr.caller.cur != nil {
			pos = fr.caller.cur.Pos()
		}
	}
	i.raceAccess(p, write, true, pos)
}
