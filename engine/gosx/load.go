package gosx

import (
	"fmt"
	"os"
	"path/filepath"
	"sort"
	"strings"

	"golang.org/x/tools/go/packages"
	"golang.org/x/tools/go/ssa"
	"golang.org/x/tools/go/ssa/ssautil"
)

// BuildOverlay maps every file under hdir/<rel>/x.go to repo/<rel>/zz_vx_x.go.
func BuildOverlay(repo, hdir string) (map[string][]byte, error) {
	ov := map[string][]byte{}
	err := filepath.Walk(hdir, func(p string, info os.FileInfo, err error) error {
		if err != nil {
			return err
		}
		if info.IsDir() || !strings.HasSuffix(p, ".go") || strings.HasSuffix(p, "_test.go") {
			return nil
		}
		rel, _ := filepath.Rel(hdir, p)
		dir, base := filepath.Split(rel)
		b, err := os.ReadFile(p)
		if err != nil {
			return err
		}
		ov[filepath.Join(repo, dir, "zz_vx_"+base)] = b
		return nil
	})
	return ov, err
}

// Load type-checks the harness package (with overlay) and builds SSA for it and
// all its dependencies from the repository's current working tree.
func Load(repo, pkgDir string, overlay map[string][]byte) (*ssa.Program, *ssa.Package, error) {
	cfg := &packages.Config{
		Mode:    packages.NeedName | packages.NeedFiles | packages.NeedCompiledGoFiles | packages.NeedImports | packages.NeedDeps | packages.NeedTypes | packages.NeedSyntax | packages.NeedTypesInfo | packages.NeedTypesSizes | packages.NeedModule,
		Dir:     repo,
		Overlay: overlay,
		Env:     append(os.Environ(), "GOFLAGS=-mod=mod", "GOPROXY=off", "GOSUMDB=off", "GOTOOLCHAIN=local", "CGO_ENABLED=0"),
	}
	pat := "./" + strings.TrimPrefix(pkgDir, "./")
	initial, err := packages.Load(cfg, pat, "runtime")
	if err != nil {
		return nil, nil, err
	}
	var errs []string
	packages.Visit(initial, nil, func(p *packages.Package) {
		for _, e := range p.Errors {
			errs = append(errs, e.Error())
		}
	})
	if len(errs) > 0 {
		sort.Strings(errs)
		if len(errs) > 20 {
			errs = errs[:20]
		}
		return nil, nil, fmt.Errorf("load errors:\n%s", strings.Join(errs, "\n"))
	}
	prog, pkgs := ssautil.AllPackages(initial, ssa.InstantiateGenerics)
	prog.Build()
	var main *ssa.Package
	for k, p := range initial {
		if p.PkgPath != "runtime" && pkgs[k] != nil {
			main = pkgs[k]
		}
	}
	if main == nil {
		return nil, nil, fmt.Errorf("package %s not found", pat)
	}
	return prog, main, nil
}

// FunctionsEncoded lists repository functions executed symbolically at least once.
func (ex *Explorer) FunctionsEncoded() []string {
	ex.mu.Lock()
	defer ex.mu.Unlock()
	var out []string
	for f := range ex.funcsSeen {
		out = append(out, f)
	}
	sort.Strings(out)
	return out
}
