// Package gosx is a bounded symbolic executor for Go SSA (golang.org/x/tools/go/ssa).
//
// It is derived from golang.org/x/tools/go/ssa/interp (BSD-style licence, The Go
// Authors): the concrete semantics of every SSA instruction is kept, scalars may
// additionally be SMT bit-vector terms, and control flow on such terms is decided
// by an SMT solver (see engine.go).
package gosx

import (
	"fmt"
	"go/token"
	"go/types"
	"os"
	"runtime"
	"slices"
	"strings"

	"golang.org/x/tools/go/ssa"
)

var debugOn = os.Getenv("GOSX_DEBUG") != ""

type continuation int

const (
	kNext continuation = iota
	kReturn
	kJump
)

type deferred struct {
	fn    value
	args  []value
	instr *ssa.Defer
	tail  *deferred
}

type frame struct {
	i                *interpreter
	caller           *frame
	fn               *ssa.Function
	block, prevBlock *ssa.BasicBlock
	env              map[ssa.Value]value // dynamic values of SSA variables
	locals           []value
	defers           *deferred
	result           value
	panicking        bool
	panic            interface{}
	phitemps         []value // temporaries for parallel phi assignment
	depth            int
	cur              ssa.Instruction
}

// pathAbort ends the current path (never visible to the target program).
type pathAbort struct {
	kind string // "infeasible", "unsupported", "budget", "cut", "stop"
	msg  string
}

func mustDeref(t types.Type) types.Type {
	if p, ok := t.Underlying().(*types.Pointer); ok {
		return p.Elem()
	}
	panic(fmt.Sprintf("mustDeref: %v is not a pointer", t))
}

func (fr *frame) get(key ssa.Value) value {
	switch key := key.(type) {
	case nil:
		return nil
	case *ssa.Function, *ssa.Builtin:
		return key
	case *ssa.Const:
		return constValue(key)
	case *ssa.Global:
		return fr.i.global(key)
	}
	if r, ok := fr.env[key]; ok {
		return r
	}
	panic(fmt.Sprintf("get: no value for %T: %v", key, key.Name()))
}

// runDefer runs a deferred call d.
// It always returns normally, but may set or clear fr.panic.
func (fr *frame) runDefer(d *deferred) {
	var ok bool
	defer func() {
		if !ok {
			r := recover()
			if pa, isAbort := r.(pathAbort); isAbort {
				panic(pa)
			}
			// Deferred call created a new state of panic.
			fr.panicking = true
			fr.panic = r
		}
	}()
	call(fr.i, fr, d.instr.Pos(), d.fn, d.args)
	ok = true
}

func (fr *frame) runDefers() {
	for d := fr.defers; d != nil; d = d.tail {
		fr.runDefer(d)
	}
	fr.defers = nil
	if fr.panicking {
		panic(fr.panic) // new panic, or still panicking
	}
}

func lookupMethod(i *interpreter, typ types.Type, meth *types.Func) *ssa.Function {
	return i.prog.LookupMethod(typ, meth.Pkg(), meth.Name())
}

// visitInstr interprets a single ssa.Instruction within the activation
// record frame.
func visitInstr(fr *frame, instr ssa.Instruction) continuation {
	i := fr.i
	fr.cur = instr
	i.steps++
	if debugOn && i.steps&(1<<22-1) == 0 {
		fmt.Fprintf(os.Stderr, "gosx[%d]: %d steps at %s\n", i.id, i.steps, i.where())
	}
	if i.steps > i.maxSteps {
		panic(pathAbort{"budget", fmt.Sprintf("instruction budget %d exceeded in %s", i.maxSteps, fr.fn)})
	}
	switch instr := instr.(type) {
	case *ssa.DebugRef:
		// no-op

	case *ssa.UnOp:
		if i.race != nil && instr.Op == token.MUL {
			i.raceAccess(fr.get(instr.X), false, false, instr.Pos())
		}
		fr.env[instr] = i.unop(instr, fr.get(instr.X))

	case *ssa.BinOp:
		fr.env[instr] = i.binop(instr.Op, instr.X.Type(), fr.get(instr.X), fr.get(instr.Y))

	case *ssa.Call:
		fn, args := prepareCall(fr, &instr.Call)
		fr.env[instr] = call(fr.i, fr, instr.Pos(), fn, args)

	case *ssa.ChangeInterface:
		fr.env[instr] = fr.get(instr.X)

	case *ssa.ChangeType:
		fr.env[instr] = fr.get(instr.X) // (can't fail)

	case *ssa.Convert:
		fr.env[instr] = i.conv(instr.Type(), instr.X.Type(), fr.get(instr.X))

	case *ssa.MultiConvert:
		fr.env[instr] = i.conv(instr.Type(), instr.X.Type(), fr.get(instr.X))

	case *ssa.SliceToArrayPointer:
		fr.env[instr] = i.sliceToArrayPointer(instr.Type(), instr.X.Type(), fr.get(instr.X))

	case *ssa.MakeInterface:
		fr.env[instr] = iface{t: instr.X.Type(), v: fr.get(instr.X)}

	case *ssa.Extract:
		fr.env[instr] = fr.get(instr.Tuple).(tuple)[instr.Index]

	case *ssa.Slice:
		fr.env[instr] = i.slice(instr.X.Type(), fr.get(instr.X), fr.get(instr.Low), fr.get(instr.High), fr.get(instr.Max))

	case *ssa.Return:
		switch len(instr.Results) {
		case 0:
		case 1:
			fr.result = fr.get(instr.Results[0])
		default:
			var res []value
			for _, r := range instr.Results {
				res = append(res, fr.get(r))
			}
			fr.result = tuple(res)
		}
		fr.block = nil
		return kReturn

	case *ssa.RunDefers:
		fr.runDefers()

	case *ssa.Panic:
		panic(targetPanic{fr.get(instr.X)})

	case *ssa.Send:
		ch := fr.get(instr.Chan).(chan value)
		select {
		case ch <- fr.get(instr.X):
		default:
			panic(pathAbort{"unsupported", "blocking channel send"})
		}

	case *ssa.Store:
		if i.race != nil {
			i.raceAccess(fr.get(instr.Addr), true, false, instr.Pos())
		}
		i.storeAt(mustDeref(instr.Addr.Type()), fr.get(instr.Addr), fr.get(instr.Val))

	case *ssa.If:
		succ := 1
		if i.truth(fr.get(instr.Cond)) {
			succ = 0
		}
		fr.prevBlock, fr.block = fr.block, fr.block.Succs[succ]
		return kJump

	case *ssa.Jump:
		fr.prevBlock, fr.block = fr.block, fr.block.Succs[0]
		return kJump

	case *ssa.Defer:
		fn, args := prepareCall(fr, &instr.Call)
		defers := &fr.defers
		if into := fr.get(instr.DeferStack); into != nil {
			defers = into.(**deferred)
		}
		*defers = &deferred{
			fn:    fn,
			args:  args,
			instr: instr,
			tail:  *defers,
		}

	case *ssa.Go:
		fn, args := prepareCall(fr, &instr.Call)
		i.goStmt(fr, instr, fn, args)

	case *ssa.MakeChan:
		fr.env[instr] = make(chan value, i.concInt(fr.get(instr.Size)))

	case *ssa.Alloc:
		var addr *value
		if instr.Heap {
			addr = new(value)
			fr.env[instr] = addr
		} else {
			addr = fr.env[instr].(*value)
		}
		*addr = i.zero(mustDeref(instr.Type()))

	case *ssa.MakeSlice:
		n := i.makeLen(fr.get(instr.Len), "len")
		c := i.makeLen(fr.get(instr.Cap), "cap")
		if n > c {
			panic(targetPanic{i.runtimeError("makeslice: cap out of range")})
		}
		if c > 1<<24 {
			panic(pathAbort{"unsupported", fmt.Sprintf("make of %d elements", c)})
		}
		slice := make([]value, c)
		tElt := instr.Type().Underlying().(*types.Slice).Elem()
		for k := range slice {
			slice[k] = i.zero(tElt)
		}
		fr.env[instr] = slice[:n]

	case *ssa.MakeMap:
		fr.env[instr] = i.makeMap(instr.Type().Underlying().(*types.Map).Key())

	case *ssa.Range:
		if i.race != nil {
			if m, ok := fr.get(instr.X).(*gmap); ok {
				i.raceAccess(m, false, false, instr.Pos()) // iteration reads the map
			}
		}
		fr.env[instr] = i.rangeIter(fr.get(instr.X), instr.X.Type())

	case *ssa.Next:
		if i.race != nil {
			if it, ok := fr.get(instr.Iter).(*gmapIter); ok && it.m != nil {
				i.raceAccess(it.m, false, false, instr.Pos())
			}
		}
		fr.env[instr] = fr.get(instr.Iter).(iter).next()

	case *ssa.FieldAddr:
		p := fr.get(instr.X).(*value)
		if p == nil {
			panic(targetPanic{i.runtimeError("invalid memory address or nil pointer dereference")})
		}
		fr.env[instr] = &(*p).(structure)[instr.Field]

	case *ssa.Field:
		fr.env[instr] = fr.get(instr.X).(structure)[instr.Field]

	case *ssa.IndexAddr:
		fr.env[instr] = i.indexAddr(fr.get(instr.X), fr.get(instr.Index))

	case *ssa.Index:
		fr.env[instr] = i.index(fr.get(instr.X), fr.get(instr.Index))

	case *ssa.Lookup:
		if i.race != nil {
			if m, ok := fr.get(instr.X).(*gmap); ok {
				i.raceAccess(m, false, false, instr.Pos())
			}
		}
		fr.env[instr] = i.lookup(instr, fr.get(instr.X), fr.get(instr.Index))

	case *ssa.MapUpdate:
		m := fr.get(instr.Map).(*gmap)
		if m == nil {
			panic(targetPanic{i.runtimeError("assignment to entry in nil map")})
		}
		if i.race != nil {
			i.raceAccess(m, true, false, instr.Pos())
		}
		m.insert(i, fr.get(instr.Key), fr.get(instr.Value))

	case *ssa.TypeAssert:
		fr.env[instr] = typeAssert(fr.i, instr, fr.get(instr.X).(iface))

	case *ssa.MakeClosure:
		var bindings []value
		for _, binding := range instr.Bindings {
			bindings = append(bindings, fr.get(binding))
		}
		fr.env[instr] = &closure{instr.Fn.(*ssa.Function), bindings}

	case *ssa.Phi:
		panic("unreachable") // phis are processed at block entry

	case *ssa.Select:
		panic(pathAbort{"unsupported", "select statement in " + fr.fn.String()})

	default:
		panic(fmt.Sprintf("unexpected instruction: %T", instr))
	}
	return kNext
}

// makeLen concretises a make() size and checks it is non-negative.
func (i *interpreter) makeLen(v value, what string) int {
	if s, ok := v.(sym); ok {
		t := i.asTerm64(s)
		if i.branch(i.ts.Cmp(OpSlt, t, i.ts.Const(64, 0))) {
			panic(targetPanic{i.runtimeError("makeslice: " + what + " out of range")})
		}
		if i.branch(i.ts.Cmp(OpSlt, i.ts.Const(64, 1<<24), t)) {
			panic(targetPanic{i.runtimeError("makeslice: " + what + " out of range (engine: > 2^24)")})
		}
		return int(i.concInt(s))
	}
	n := asInt64(v)
	if n < 0 {
		panic(targetPanic{i.runtimeError("makeslice: " + what + " out of range")})
	}
	return int(n)
}

func prepareCall(fr *frame, call *ssa.CallCommon) (fn value, args []value) {
	v := fr.get(call.Value)
	if call.Method == nil {
		fn = v
	} else {
		recv := v.(iface)
		if recv.t == nil {
			panic(targetPanic{fr.i.runtimeError("invalid memory address or nil pointer dereference (method " + call.Method.Name() + " invoked on nil interface)")})
		}
		if f := lookupMethod(fr.i, recv.t, call.Method); f == nil {
			panic(fmt.Sprintf("method set for dynamic type %v does not contain %s", recv.t, call.Method))
		} else {
			fn = f
		}
		args = append(args, recv.v)
	}
	for _, arg := range call.Args {
		args = append(args, fr.get(arg))
	}
	return
}

func call(i *interpreter, caller *frame, callpos token.Pos, fn value, args []value) value {
	switch fn := fn.(type) {
	case *ssa.Function:
		if fn == nil {
			panic(targetPanic{i.runtimeError("invalid memory address or nil pointer dereference (call of nil func)")})
		}
		return callSSA(i, caller, callpos, fn, args, nil)
	case *closure:
		return callSSA(i, caller, callpos, fn.Fn, args, fn.Env)
	case *ssa.Builtin:
		return callBuiltin(caller, callpos, fn, args)
	}
	panic(fmt.Sprintf("cannot call %T", fn))
}

func loc(fset *token.FileSet, pos token.Pos) string {
	if pos == token.NoPos {
		return ""
	}
	return " at " + fset.Position(pos).String()
}

func callSSA(i *interpreter, caller *frame, callpos token.Pos, fn *ssa.Function, args []value, env []value) value {
	fr := &frame{
		i:      i,
		caller: caller,
		fn:     fn,
	}
	if caller != nil {
		fr.depth = caller.depth + 1
		if fr.depth > i.maxDepth {
			panic(pathAbort{"budget", fmt.Sprintf("call depth %d exceeded in %s", i.maxDepth, fn)})
		}
	}
	if fn.Parent() == nil {
		name := fn.String()
		if fn.Pkg != nil && fn.Name() == "init" && fn.Synthetic != "" {
			if !initAllowed(fn.Pkg.Pkg.Path()) {
				return nil
			}
			if !strings.HasPrefix(fn.Pkg.Pkg.Path(), "github.com/ajitpratap0/GoSQLX") {
				// best effort for stdlib packages: an init we cannot interpret is skipped
				defer func() {
					if r := recover(); r != nil {
						if os.Getenv("GOSX_DEBUG") != "" {
							fmt.Fprintf(os.Stderr, "gosx: init of %s skipped: %v at %s\n", fn.Pkg.Pkg.Path(), r, i.lastPanicAt)
						}
					}
				}()
			}
		}
		if rep, ok := i.replace[name]; ok {
			return callSSA(i, caller, callpos, rep, args, nil)
		}
		if ext := i.lookupExternal(fn, name); ext != nil {
			return ext(fr, args)
		}
		if liftable[name] && i.lifting == 0 {
			if len(args) == 1 {
				if sv, ok := args[0].(sym); ok {
					if r, ok := i.liftPure(fr, fn, sv); ok {
						return r
					}
				}
			}
			if r, ok := i.liftPureStr(fr, fn, args); ok {
				return r
			}
		}
		if fn.Blocks == nil {
			if fn.Pkg != nil {
				fn.Pkg.Build()
			}
			if fn.Blocks == nil {
				panic(pathAbort{"unsupported", "no code for function: " + name + " at " + i.where()})
			}
		}
		if i.cutAt[name] {
			panic(pathAbort{"cut", name})
		}
	} else if fn.Blocks == nil {
		panic(pathAbort{"unsupported", "no code for function: " + fn.String()})
	}
	if fn.TypeParams().Len() > 0 && len(fn.TypeArgs()) == 0 {
		panic(pathAbort{"unsupported", "uninstantiated generic " + fn.String()})
	}
	if i.trace {
		fmt.Fprintf(os.Stderr, "%*sEntering %s\n", fr.depth, "", fn)
	}
	if fn.Pkg != nil && !i.funcsSeen[fn.String()] && strings.HasPrefix(fn.Pkg.Pkg.Path(), "github.com/ajitpratap0/GoSQLX") {
		i.funcsSeen[fn.String()] = true
	}
	saved := i.curFrame
	i.curFrame = fr
	defer func() { i.curFrame = saved }()
	fr.env = make(map[ssa.Value]value, 16)
	fr.block = fn.Blocks[0]
	fr.locals = make([]value, len(fn.Locals))
	for k, l := range fn.Locals {
		fr.locals[k] = i.zero(mustDeref(l.Type()))
		fr.env[l] = &fr.locals[k]
	}
	for k, p := range fn.Params {
		fr.env[p] = args[k]
	}
	for k, fv := range fn.FreeVars {
		fr.env[fv] = env[k]
	}
	if i.onEnter != nil {
		i.onEnter(fr)
	}
	for fr.block != nil {
		runFrame(fr)
	}
	if i.onLeave != nil {
		i.onLeave(fr)
	}
	return fr.result
}

func runFrame(fr *frame) {
	defer func() {
		if fr.block == nil {
			return // normal return
		}
		r := recover()
		if pa, ok := r.(pathAbort); ok {
			panic(pa)
		}
		if _, ok := r.(engineBug); ok {
			panic(r)
		}
		fr.panicking = true
		fr.panic = r
		fr.runDefers()
		fr.block = fr.fn.Recover
	}()

	for {
		nonPhis := executePhis(fr)
		for _, instr := range nonPhis {
			if visitInstr(fr, instr) == kReturn {
				return
			}
		}
	}
}

func executePhis(fr *frame) []ssa.Instruction {
	firstNonPhi := -1
	for i, instr := range fr.block.Instrs {
		if _, ok := instr.(*ssa.Phi); !ok {
			firstNonPhi = i
			break
		}
	}
	nonPhis := fr.block.Instrs[firstNonPhi:]
	if firstNonPhi > 0 {
		phis := fr.block.Instrs[:firstNonPhi]
		predIndex := slices.Index(fr.block.Preds, fr.prevBlock)
		fr.phitemps = fr.phitemps[:0]
		for _, phi := range phis {
			phi := phi.(*ssa.Phi)
			fr.phitemps = append(fr.phitemps, fr.get(phi.Edges[predIndex]))
		}
		for i, phi := range phis {
			fr.env[phi.(*ssa.Phi)] = fr.phitemps[i]
		}
	}
	return nonPhis
}

// liftable lists pure functions of one integer argument that are evaluated
// row-wise on finite-domain values (DESIGN.md 3.2).
var liftable = map[string]bool{
	"(github.com/ajitpratap0/GoSQLX/pkg/models.TokenType).String":   true,
	"github.com/ajitpratap0/GoSQLX/pkg/errors.SuggestKeyword":       true,
	"github.com/ajitpratap0/GoSQLX/pkg/errors.GenerateHint":         true,
	"github.com/ajitpratap0/GoSQLX/pkg/sql/ast.escapeStringLiteral": true,
	"github.com/ajitpratap0/GoSQLX/pkg/sql/ast.safeIdentifier":      true,
}

func callSSAraw(i *interpreter, caller *frame, fn *ssa.Function, args []value) value {
	return callSSA(i, caller, 0, fn, args, nil)
}

// engineBug marks a host-side failure that must not be mistaken for a target panic.
type engineBug struct{ msg string }

// doRecover implements the recover() built-in.
func doRecover(caller *frame) value {
	if caller != nil && !caller.panicking &&
		caller.caller != nil && caller.caller.panicking {
		caller.caller.panicking = false
		p := caller.caller.panic
		caller.caller.panic = nil
		return caller.i.panicValue(p)
	}
	return iface{}
}

// panicValue converts a host-level panic payload to the interface value the
// target program would see from recover().
func (i *interpreter) panicValue(p interface{}) value {
	switch p := p.(type) {
	case targetPanic:
		return p.v
	case runtime.Error:
		return i.runtimeError(p.Error())
	case string:
		return i.runtimeError(p)
	default:
		panic(engineBug{fmt.Sprintf("unexpected panic type %T in target call to recover(): %v", p, p)})
	}
}

// describePanic renders a panic payload for reports.
func (i *interpreter) describePanic(p interface{}) string {
	switch p := p.(type) {
	case targetPanic:
		if itf, ok := p.v.(iface); ok {
			if itf.t != nil && types.Identical(itf.t, i.runtimeErrorString) {
				return "runtime error: " + i.showString(itf.v)
			}
			if s, ok := itf.v.(string); ok {
				return "panic: " + s
			}
			if itf.t != nil {
				return fmt.Sprintf("panic: (%s) %s", itf.t, strings.TrimSpace(toString(itf.v)))
			}
		}
		return "panic: " + toString(p.v)
	case runtime.Error:
		return "runtime error (host): " + p.Error()
	case string:
		return "panic (engine string): " + p
	}
	return fmt.Sprintf("panic: %T %v", p, p)
}
