// Copyright 2013 The Go Authors. All rights reserved.
// Use of this source code is governed by a BSD-style
// license that can be found in the LICENSE file.

package gosx

import (
	"bytes"
	"fmt"
	"go/constant"
	"go/token"
	"go/types"
	"os"
	"unsafe"

	"golang.org/x/tools/go/ssa"
)

// If the target program panics, the interpreter panics with this type.
type targetPanic struct {
	v value
}

func (p targetPanic) String() string {
	return toString(p.v)
}

// If the target program calls exit, the interpreter panics with this type.
type exitPanic int

// constValue returns the value of the constant with the
// dynamic type tag appropriate for c.Type().
func constValue(c *ssa.Const) value {
	if c.Value == nil {
		return (&interpreter{}).zero(c.Type()) // typed zero
	}
	// c is not a type parameter so it's underlying type is basic.

	if t, ok := c.Type().Underlying().(*types.Basic); ok {
		// TODO(adonovan): eliminate untyped constants from SSA form.
		switch t.Kind() {
		case types.Bool, types.UntypedBool:
			return constant.BoolVal(c.Value)
		case types.Int, types.UntypedInt:
			// Assume sizeof(int) is same on host and target.
			return int(c.Int64())
		case types.Int8:
			return int8(c.Int64())
		case types.Int16:
			return int16(c.Int64())
		case types.Int32, types.UntypedRune:
			return int32(c.Int64())
		case types.Int64:
			return c.Int64()
		case types.Uint:
			// Assume sizeof(uint) is same on host and target.
			return uint(c.Uint64())
		case types.Uint8:
			return uint8(c.Uint64())
		case types.Uint16:
			return uint16(c.Uint64())
		case types.Uint32:
			return uint32(c.Uint64())
		case types.Uint64:
			return c.Uint64()
		case types.Uintptr:
			// Assume sizeof(uintptr) is same on host and target.
			return uintptr(c.Uint64())
		case types.Float32:
			return float32(c.Float64())
		case types.Float64, types.UntypedFloat:
			return c.Float64()
		case types.Complex64:
			return complex64(c.Complex128())
		case types.Complex128, types.UntypedComplex:
			return c.Complex128()
		case types.String, types.UntypedString:
			if c.Value.Kind() == constant.String {
				return constant.StringVal(c.Value)
			}
			return string(rune(c.Int64()))
		}
	}

	panic(fmt.Sprintf("constValue: %s", c))
}

// fitsInt returns true if x fits in type int according to sizes.
func fitsInt(x int64, sizes types.Sizes) bool {
	intSize := sizes.Sizeof(types.Typ[types.Int])
	if intSize < sizes.Sizeof(types.Typ[types.Int64]) {
		maxInt := int64(1)<<((intSize*8)-1) - 1
		minInt := -int64(1) << ((intSize * 8) - 1)
		return minInt <= x && x <= maxInt
	}
	return true
}

// asInt64 converts x, which must be an integer, to an int64.
//
// Callers that need a value directly usable as an int should combine this with fitsInt().
func asInt64(x value) int64 {
	switch x := x.(type) {
	case int:
		return int64(x)
	case int8:
		return int64(x)
	case int16:
		return int64(x)
	case int32:
		return int64(x)
	case int64:
		return x
	case uint:
		return int64(x)
	case uint8:
		return int64(x)
	case uint16:
		return int64(x)
	case uint32:
		return int64(x)
	case uint64:
		return int64(x)
	case uintptr:
		return int64(x)
	}
	panic(fmt.Sprintf("cannot convert %T to int64", x))
}

// asUint64 converts x, which must be an unsigned integer, to a uint64
// suitable for use as a bitwise shift count.
func asUint64(x value) uint64 {
	switch x := x.(type) {
	case uint:
		return uint64(x)
	case uint8:
		return uint64(x)
	case uint16:
		return uint64(x)
	case uint32:
		return uint64(x)
	case uint64:
		return x
	case uintptr:
		return uint64(x)
	}
	panic(fmt.Sprintf("cannot convert %T to uint64", x))
}

// asUnsigned returns the value of x, which must be an integer type, as its equivalent unsigned type,
// and returns true if x is non-negative.
func asUnsigned(x value) (value, bool) {
	switch x := x.(type) {
	case int:
		return uint(x), x >= 0
	case int8:
		return uint8(x), x >= 0
	case int16:
		return uint16(x), x >= 0
	case int32:
		return uint32(x), x >= 0
	case int64:
		return uint64(x), x >= 0
	case uint, uint8, uint32, uint64, uintptr:
		return x, true
	}
	panic(fmt.Sprintf("cannot convert %T to unsigned", x))
}

// zero returns a new "zero" value of the specified type.
func (i *interpreter) zero(t types.Type) value {
	switch t := t.(type) {
	case *types.Basic:
		if t.Kind() == types.UntypedNil {
			panic("untyped nil has no zero value")
		}
		if t.Info()&types.IsUntyped != 0 {
			// TODO(adonovan): make it an invariant that
			// this is unreachable.  Currently some
			// constants have 'untyped' types when they
			// should be defaulted by the typechecker.
			t = types.Default(t).(*types.Basic)
		}
		switch t.Kind() {
		case types.Bool:
			return false
		case types.Int:
			return int(0)
		case types.Int8:
			return int8(0)
		case types.Int16:
			return int16(0)
		case types.Int32:
			return int32(0)
		case types.Int64:
			return int64(0)
		case types.Uint:
			return uint(0)
		case types.Uint8:
			return uint8(0)
		case types.Uint16:
			return uint16(0)
		case types.Uint32:
			return uint32(0)
		case types.Uint64:
			return uint64(0)
		case types.Uintptr:
			return uintptr(0)
		case types.Float32:
			return float32(0)
		case types.Float64:
			return float64(0)
		case types.Complex64:
			return complex64(0)
		case types.Complex128:
			return complex128(0)
		case types.String:
			return ""
		case types.UnsafePointer:
			return unsafe.Pointer(nil)
		default:
			panic(fmt.Sprint("zero for unexpected type:", t))
		}
	case *types.Pointer:
		return (*value)(nil)
	case *types.Array:
		a := make(array, t.Len())
		for k := range a {
			a[k] = i.zero(t.Elem())
		}
		return a
	case *types.Named:
		return i.zero(t.Underlying())
	case *types.Alias:
		return i.zero(types.Unalias(t))
	case *types.Interface:
		return iface{} // nil type, methodset and value
	case *types.Slice:
		return []value(nil)
	case *types.Struct:
		s := make(structure, t.NumFields())
		for k := range s {
			s[k] = i.zero(t.Field(k).Type())
		}
		return s
	case *types.Tuple:
		if t.Len() == 1 {
			return i.zero(t.At(0).Type())
		}
		s := make(tuple, t.Len())
		for k := range s {
			s[k] = i.zero(t.At(k).Type())
		}
		return s
	case *types.Chan:
		return chan value(nil)
	case *types.Map:
		return (*gmap)(nil)
	case *types.Signature:
		return (*ssa.Function)(nil)
	}
	panic(fmt.Sprint("zero: unexpected ", t))
}

// slice returns x[lo:hi:max].  Any of lo, hi and max may be nil.
// Bounds are checked (forking on symbolic bounds); bounds are concretised.
func (i *interpreter) slice(t types.Type, x, lo, hi, max value) value {
	var Len, Cap int
	var sb []value
	isString := false
	switch x := x.(type) {
	case string, *symstr, *fdstr, *ropestr:
		sb = i.strBytes(x)
		Len = len(sb)
		Cap = Len
		isString = true
	case []value:
		Len = len(x)
		Cap = cap(x)
	case *value: // *array
		if x == nil {
			panic(targetPanic{i.runtimeError("invalid memory address or nil pointer dereference")})
		}
		a := (*x).(array)
		Len = len(a)
		Cap = cap(a)
	default:
		panic(fmt.Sprintf("slice: unexpected X type: %T", x))
	}
	// Go checks: 0 <= lo <= hi <= max <= cap  (hi <= len for strings)
	ts := i.ts
	c64 := func(v int) *Term { return ts.Const(64, uint64(v)) }
	lt := c64(0)
	if lo != nil {
		lt = i.asTerm64(lo)
	}
	var ht *Term
	if hi != nil {
		ht = i.asTerm64(hi)
	} else {
		ht = c64(Len)
	}
	mt := c64(Cap)
	if max != nil {
		mt = i.asTerm64(max)
	}
	ok := ts.And(ts.Cmp(OpSle, c64(0), lt), ts.And(ts.Cmp(OpSle, lt, ht), ts.And(ts.Cmp(OpSle, ht, mt), ts.Cmp(OpSle, mt, c64(Cap)))))
	if !i.branch(ok) {
		panic(targetPanic{i.runtimeError(fmt.Sprintf("slice bounds out of range [%s:%s] with capacity %d", i.showInt(lt), i.showInt(ht), Cap))})
	}
	l := i.concInt(lower(types.Int, lt))
	h := i.concInt(lower(types.Int, ht))
	m := i.concInt(lower(types.Int, mt))
	switch x := x.(type) {
	case []value:
		if x == nil && h == 0 {
			return []value(nil)
		}
		return x[l:h:m]
	case *value: // *array
		a := (*x).(array)
		return []value(a)[l:h:m]
	}
	if isString {
		if s, ok := x.(string); ok {
			return s[l:h]
		}
		return mkStr(sb[l:h])
	}
	panic("unreachable")
}

func (i *interpreter) showInt(t *Term) string {
	if t.op == OpConst {
		return fmt.Sprint(int64(t.val))
	}
	return fmt.Sprintf("%d(sym)", int64(i.evalTerm(t)))
}

// indexAddr returns &x[idx] for slices and *array.
func (i *interpreter) indexAddr(x, idx value) value {
	var base []value
	switch x := x.(type) {
	case []value:
		base = x
	case *value: // *array
		if x == nil {
			panic(targetPanic{i.runtimeError("invalid memory address or nil pointer dereference")})
		}
		base = []value((*x).(array))
	default:
		panic(fmt.Sprintf("unexpected x type in IndexAddr: %T", x))
	}
	k := i.checkIndex(idx, len(base))
	if k >= 0 {
		return &base[k]
	}
	return &symPtr{base: base, idx: i.asTerm64(idx)}
}

// index returns x[idx] for arrays and strings.
func (i *interpreter) index(x, idx value) value {
	switch x := x.(type) {
	case array:
		k := i.checkIndex(idx, len(x))
		if k >= 0 {
			return x[k]
		}
		kk := i.concInt(idx)
		return x[kk]
	case string, *symstr, *fdstr, *ropestr:
		return i.strIndex(x, idx)
	}
	panic(fmt.Sprintf("unexpected x type in Index: %T", x))
}

// lookup returns x[idx] where x is a map.
func (i *interpreter) lookup(instr *ssa.Lookup, x, idx value) value {
	m, ok := x.(*gmap)
	if !ok {
		panic(fmt.Sprintf("unexpected x type in Lookup: %T", x))
	}
	v, found := m.lookup(i, idx)
	if !found {
		v = i.zero(instr.X.Type().Underlying().(*types.Map).Elem())
	}
	if instr.CommaOk {
		return tuple{v, found}
	}
	return v
}

// binop implements all arithmetic and logical binary operators for
// numeric datatypes and strings.  Both operands must have identical
// dynamic type.
func (i *interpreter) binop(op token.Token, t types.Type, x, y value) value {
	if isSym(x) || isSym(y) {
		return i.symBinop(op, x, y)
	}
	if isStr(x) && isStr(y) {
		_, xs := x.(string)
		_, ys := y.(string)
		if !xs || !ys {
			switch op {
			case token.ADD:
				return i.strConcat(x, y)
			case token.EQL:
				return i.strEq(x, y)
			case token.NEQ:
				return i.notV(i.strEq(x, y))
			case token.LSS:
				return i.strLess(x, y)
			case token.GTR:
				return i.strLess(y, x)
			case token.LEQ:
				return i.notV(i.strLess(y, x))
			case token.GEQ:
				return i.notV(i.strLess(x, y))
			}
		}
	}
	switch op {
	case token.QUO, token.REM:
		if _, bits, ok := kindOf(y); ok && bits == 0 {
			panic(targetPanic{i.runtimeError("integer divide by zero")})
		}
	}
	switch op {
	case token.ADD:
		switch x.(type) {
		case int:
			return x.(int) + y.(int)
		case int8:
			return x.(int8) + y.(int8)
		case int16:
			return x.(int16) + y.(int16)
		case int32:
			return x.(int32) + y.(int32)
		case int64:
			return x.(int64) + y.(int64)
		case uint:
			return x.(uint) + y.(uint)
		case uint8:
			return x.(uint8) + y.(uint8)
		case uint16:
			return x.(uint16) + y.(uint16)
		case uint32:
			return x.(uint32) + y.(uint32)
		case uint64:
			return x.(uint64) + y.(uint64)
		case uintptr:
			return x.(uintptr) + y.(uintptr)
		case float32:
			return x.(float32) + y.(float32)
		case float64:
			return x.(float64) + y.(float64)
		case complex64:
			return x.(complex64) + y.(complex64)
		case complex128:
			return x.(complex128) + y.(complex128)
		case string:
			return x.(string) + y.(string)
		}

	case token.SUB:
		switch x.(type) {
		case int:
			return x.(int) - y.(int)
		case int8:
			return x.(int8) - y.(int8)
		case int16:
			return x.(int16) - y.(int16)
		case int32:
			return x.(int32) - y.(int32)
		case int64:
			return x.(int64) - y.(int64)
		case uint:
			return x.(uint) - y.(uint)
		case uint8:
			return x.(uint8) - y.(uint8)
		case uint16:
			return x.(uint16) - y.(uint16)
		case uint32:
			return x.(uint32) - y.(uint32)
		case uint64:
			return x.(uint64) - y.(uint64)
		case uintptr:
			return x.(uintptr) - y.(uintptr)
		case float32:
			return x.(float32) - y.(float32)
		case float64:
			return x.(float64) - y.(float64)
		case complex64:
			return x.(complex64) - y.(complex64)
		case complex128:
			return x.(complex128) - y.(complex128)
		}

	case token.MUL:
		switch x.(type) {
		case int:
			return x.(int) * y.(int)
		case int8:
			return x.(int8) * y.(int8)
		case int16:
			return x.(int16) * y.(int16)
		case int32:
			return x.(int32) * y.(int32)
		case int64:
			return x.(int64) * y.(int64)
		case uint:
			return x.(uint) * y.(uint)
		case uint8:
			return x.(uint8) * y.(uint8)
		case uint16:
			return x.(uint16) * y.(uint16)
		case uint32:
			return x.(uint32) * y.(uint32)
		case uint64:
			return x.(uint64) * y.(uint64)
		case uintptr:
			return x.(uintptr) * y.(uintptr)
		case float32:
			return x.(float32) * y.(float32)
		case float64:
			return x.(float64) * y.(float64)
		case complex64:
			return x.(complex64) * y.(complex64)
		case complex128:
			return x.(complex128) * y.(complex128)
		}

	case token.QUO:
		switch x.(type) {
		case int:
			return x.(int) / y.(int)
		case int8:
			return x.(int8) / y.(int8)
		case int16:
			return x.(int16) / y.(int16)
		case int32:
			return x.(int32) / y.(int32)
		case int64:
			return x.(int64) / y.(int64)
		case uint:
			return x.(uint) / y.(uint)
		case uint8:
			return x.(uint8) / y.(uint8)
		case uint16:
			return x.(uint16) / y.(uint16)
		case uint32:
			return x.(uint32) / y.(uint32)
		case uint64:
			return x.(uint64) / y.(uint64)
		case uintptr:
			return x.(uintptr) / y.(uintptr)
		case float32:
			return x.(float32) / y.(float32)
		case float64:
			return x.(float64) / y.(float64)
		case complex64:
			return x.(complex64) / y.(complex64)
		case complex128:
			return x.(complex128) / y.(complex128)
		}

	case token.REM:
		switch x.(type) {
		case int:
			return x.(int) % y.(int)
		case int8:
			return x.(int8) % y.(int8)
		case int16:
			return x.(int16) % y.(int16)
		case int32:
			return x.(int32) % y.(int32)
		case int64:
			return x.(int64) % y.(int64)
		case uint:
			return x.(uint) % y.(uint)
		case uint8:
			return x.(uint8) % y.(uint8)
		case uint16:
			return x.(uint16) % y.(uint16)
		case uint32:
			return x.(uint32) % y.(uint32)
		case uint64:
			return x.(uint64) % y.(uint64)
		case uintptr:
			return x.(uintptr) % y.(uintptr)
		}

	case token.AND:
		switch x.(type) {
		case int:
			return x.(int) & y.(int)
		case int8:
			return x.(int8) & y.(int8)
		case int16:
			return x.(int16) & y.(int16)
		case int32:
			return x.(int32) & y.(int32)
		case int64:
			return x.(int64) & y.(int64)
		case uint:
			return x.(uint) & y.(uint)
		case uint8:
			return x.(uint8) & y.(uint8)
		case uint16:
			return x.(uint16) & y.(uint16)
		case uint32:
			return x.(uint32) & y.(uint32)
		case uint64:
			return x.(uint64) & y.(uint64)
		case uintptr:
			return x.(uintptr) & y.(uintptr)
		}

	case token.OR:
		switch x.(type) {
		case int:
			return x.(int) | y.(int)
		case int8:
			return x.(int8) | y.(int8)
		case int16:
			return x.(int16) | y.(int16)
		case int32:
			return x.(int32) | y.(int32)
		case int64:
			return x.(int64) | y.(int64)
		case uint:
			return x.(uint) | y.(uint)
		case uint8:
			return x.(uint8) | y.(uint8)
		case uint16:
			return x.(uint16) | y.(uint16)
		case uint32:
			return x.(uint32) | y.(uint32)
		case uint64:
			return x.(uint64) | y.(uint64)
		case uintptr:
			return x.(uintptr) | y.(uintptr)
		}

	case token.XOR:
		switch x.(type) {
		case int:
			return x.(int) ^ y.(int)
		case int8:
			return x.(int8) ^ y.(int8)
		case int16:
			return x.(int16) ^ y.(int16)
		case int32:
			return x.(int32) ^ y.(int32)
		case int64:
			return x.(int64) ^ y.(int64)
		case uint:
			return x.(uint) ^ y.(uint)
		case uint8:
			return x.(uint8) ^ y.(uint8)
		case uint16:
			return x.(uint16) ^ y.(uint16)
		case uint32:
			return x.(uint32) ^ y.(uint32)
		case uint64:
			return x.(uint64) ^ y.(uint64)
		case uintptr:
			return x.(uintptr) ^ y.(uintptr)
		}

	case token.AND_NOT:
		switch x.(type) {
		case int:
			return x.(int) &^ y.(int)
		case int8:
			return x.(int8) &^ y.(int8)
		case int16:
			return x.(int16) &^ y.(int16)
		case int32:
			return x.(int32) &^ y.(int32)
		case int64:
			return x.(int64) &^ y.(int64)
		case uint:
			return x.(uint) &^ y.(uint)
		case uint8:
			return x.(uint8) &^ y.(uint8)
		case uint16:
			return x.(uint16) &^ y.(uint16)
		case uint32:
			return x.(uint32) &^ y.(uint32)
		case uint64:
			return x.(uint64) &^ y.(uint64)
		case uintptr:
			return x.(uintptr) &^ y.(uintptr)
		}

	case token.SHL:
		u, ok := asUnsigned(y)
		if !ok {
			panic("negative shift amount")
		}
		y := asUint64(u)
		switch x.(type) {
		case int:
			return x.(int) << y
		case int8:
			return x.(int8) << y
		case int16:
			return x.(int16) << y
		case int32:
			return x.(int32) << y
		case int64:
			return x.(int64) << y
		case uint:
			return x.(uint) << y
		case uint8:
			return x.(uint8) << y
		case uint16:
			return x.(uint16) << y
		case uint32:
			return x.(uint32) << y
		case uint64:
			return x.(uint64) << y
		case uintptr:
			return x.(uintptr) << y
		}

	case token.SHR:
		u, ok := asUnsigned(y)
		if !ok {
			panic("negative shift amount")
		}
		y := asUint64(u)
		switch x.(type) {
		case int:
			return x.(int) >> y
		case int8:
			return x.(int8) >> y
		case int16:
			return x.(int16) >> y
		case int32:
			return x.(int32) >> y
		case int64:
			return x.(int64) >> y
		case uint:
			return x.(uint) >> y
		case uint8:
			return x.(uint8) >> y
		case uint16:
			return x.(uint16) >> y
		case uint32:
			return x.(uint32) >> y
		case uint64:
			return x.(uint64) >> y
		case uintptr:
			return x.(uintptr) >> y
		}

	case token.LSS:
		switch x.(type) {
		case int:
			return x.(int) < y.(int)
		case int8:
			return x.(int8) < y.(int8)
		case int16:
			return x.(int16) < y.(int16)
		case int32:
			return x.(int32) < y.(int32)
		case int64:
			return x.(int64) < y.(int64)
		case uint:
			return x.(uint) < y.(uint)
		case uint8:
			return x.(uint8) < y.(uint8)
		case uint16:
			return x.(uint16) < y.(uint16)
		case uint32:
			return x.(uint32) < y.(uint32)
		case uint64:
			return x.(uint64) < y.(uint64)
		case uintptr:
			return x.(uintptr) < y.(uintptr)
		case float32:
			return x.(float32) < y.(float32)
		case float64:
			return x.(float64) < y.(float64)
		case string:
			return x.(string) < y.(string)
		}

	case token.LEQ:
		switch x.(type) {
		case int:
			return x.(int) <= y.(int)
		case int8:
			return x.(int8) <= y.(int8)
		case int16:
			return x.(int16) <= y.(int16)
		case int32:
			return x.(int32) <= y.(int32)
		case int64:
			return x.(int64) <= y.(int64)
		case uint:
			return x.(uint) <= y.(uint)
		case uint8:
			return x.(uint8) <= y.(uint8)
		case uint16:
			return x.(uint16) <= y.(uint16)
		case uint32:
			return x.(uint32) <= y.(uint32)
		case uint64:
			return x.(uint64) <= y.(uint64)
		case uintptr:
			return x.(uintptr) <= y.(uintptr)
		case float32:
			return x.(float32) <= y.(float32)
		case float64:
			return x.(float64) <= y.(float64)
		case string:
			return x.(string) <= y.(string)
		}

	case token.EQL:
		return i.eqnil(t, x, y)

	case token.NEQ:
		return i.notV(i.eqnil(t, x, y))

	case token.GTR:
		switch x.(type) {
		case int:
			return x.(int) > y.(int)
		case int8:
			return x.(int8) > y.(int8)
		case int16:
			return x.(int16) > y.(int16)
		case int32:
			return x.(int32) > y.(int32)
		case int64:
			return x.(int64) > y.(int64)
		case uint:
			return x.(uint) > y.(uint)
		case uint8:
			return x.(uint8) > y.(uint8)
		case uint16:
			return x.(uint16) > y.(uint16)
		case uint32:
			return x.(uint32) > y.(uint32)
		case uint64:
			return x.(uint64) > y.(uint64)
		case uintptr:
			return x.(uintptr) > y.(uintptr)
		case float32:
			return x.(float32) > y.(float32)
		case float64:
			return x.(float64) > y.(float64)
		case string:
			return x.(string) > y.(string)
		}

	case token.GEQ:
		switch x.(type) {
		case int:
			return x.(int) >= y.(int)
		case int8:
			return x.(int8) >= y.(int8)
		case int16:
			return x.(int16) >= y.(int16)
		case int32:
			return x.(int32) >= y.(int32)
		case int64:
			return x.(int64) >= y.(int64)
		case uint:
			return x.(uint) >= y.(uint)
		case uint8:
			return x.(uint8) >= y.(uint8)
		case uint16:
			return x.(uint16) >= y.(uint16)
		case uint32:
			return x.(uint32) >= y.(uint32)
		case uint64:
			return x.(uint64) >= y.(uint64)
		case uintptr:
			return x.(uintptr) >= y.(uintptr)
		case float32:
			return x.(float32) >= y.(float32)
		case float64:
			return x.(float64) >= y.(float64)
		case string:
			return x.(string) >= y.(string)
		}
	}
	panic(fmt.Sprintf("invalid binary op: %T %s %T", x, op, y))
}

// eqnil returns the comparison x == y using the equivalence relation
// appropriate for type t.
// If t is a reference type, at most one of x or y may be a nil value
// of that type.
func (i *interpreter) eqnil(t types.Type, x, y value) value {
	switch t.Underlying().(type) {
	case *types.Map, *types.Signature, *types.Slice:
		// Since these types don't support comparison,
		// one of the operands must be a literal nil.
		switch x := x.(type) {
		case *gmap:
			return (x != nil) == (y.(*gmap) != nil)
		case *ssa.Function:
			switch y := y.(type) {
			case *ssa.Function:
				return (x != nil) == (y != nil)
			case *closure:
				return x != nil
			}
		case *closure:
			return (x != nil) == (y.(*ssa.Function) != nil)
		case []value:
			return (x != nil) == (y.([]value) != nil)
		}
		panic(fmt.Sprintf("eqnil(%s): illegal dynamic type: %T", t, x))
	}

	return i.equalsV(t, x, y)
}

func (i *interpreter) unop(instr *ssa.UnOp, x value) value {
	if sx, ok := x.(sym); ok {
		return i.symUnop(instr.Op, sx)
	}
	switch instr.Op {
	case token.ARROW: // receive
		var v value
		var ok bool
		select {
		case v, ok = <-x.(chan value):
		default:
			panic(pathAbort{"unsupported", "blocking channel receive"})
		}
		if !ok {
			v = i.zero(instr.X.Type().Underlying().(*types.Chan).Elem())
		}
		if instr.CommaOk {
			v = tuple{v, ok}
		}
		return v
	case token.SUB:
		switch x := x.(type) {
		case int:
			return -x
		case int8:
			return -x
		case int16:
			return -x
		case int32:
			return -x
		case int64:
			return -x
		case uint:
			return -x
		case uint8:
			return -x
		case uint16:
			return -x
		case uint32:
			return -x
		case uint64:
			return -x
		case uintptr:
			return -x
		case float32:
			return -x
		case float64:
			return -x
		case complex64:
			return -x
		case complex128:
			return -x
		}
	case token.MUL:
		return i.loadAt(mustDeref(instr.X.Type()), x)
	case token.NOT:
		return !x.(bool)
	case token.XOR:
		switch x := x.(type) {
		case int:
			return ^x
		case int8:
			return ^x
		case int16:
			return ^x
		case int32:
			return ^x
		case int64:
			return ^x
		case uint:
			return ^x
		case uint8:
			return ^x
		case uint16:
			return ^x
		case uint32:
			return ^x
		case uint64:
			return ^x
		case uintptr:
			return ^x
		}
	}
	panic(fmt.Sprintf("invalid unary op %s %T", instr.Op, x))
}

// typeAssert checks whether dynamic type of itf is instr.AssertedType.
// It returns the extracted value on success, and panics on failure,
// unless instr.CommaOk, in which case it always returns a "value,ok" tuple.
func typeAssert(i *interpreter, instr *ssa.TypeAssert, itf iface) value {
	var v value
	err := ""
	if itf.t == nil {
		err = fmt.Sprintf("interface conversion: interface is nil, not %s", instr.AssertedType)

	} else if idst, ok := instr.AssertedType.Underlying().(*types.Interface); ok {
		v = itf
		err = checkInterface(i, idst, itf)

	} else if types.Identical(itf.t, instr.AssertedType) {
		v = itf.v // extract value

	} else {
		err = fmt.Sprintf("interface conversion: interface is %s, not %s", itf.t, instr.AssertedType)
	}
	// Note: if instr.Underlying==true ever becomes reachable from interp check that
	// types.Identical(itf.t.Underlying(), instr.AssertedType)

	if err != "" {
		if !instr.CommaOk {
			panic(targetPanic{i.runtimeError(err)})
		}
		return tuple{i.zero(instr.AssertedType), false}
	}
	if instr.CommaOk {
		return tuple{v, true}
	}
	return v
}

// This variable is no longer used but remains to prevent build breakage.
var CapturedOutput *bytes.Buffer

// callBuiltin interprets a call to builtin fn with arguments args,
// returning its result.
func callBuiltin(caller *frame, callpos token.Pos, fn *ssa.Builtin, args []value) value {
	i := caller.i
	switch fn.Name() {
	case "append":
		if len(args) == 1 {
			return args[0]
		}
		var add []value
		if isStr(args[1]) {
			add = i.strBytes(args[1])
		} else {
			add = args[1].([]value)
		}
		st, _ := fn.Type().(*types.Signature).Params().At(0).Type().Underlying().(*types.Slice)
		return i.appendSlice(st, args[0].([]value), add)

	case "copy": // copy([]T, []T) int or copy([]byte, string) int
		var src []value
		if isStr(args[1]) {
			src = i.strBytes(args[1])
		} else {
			src = args[1].([]value)
		}
		dst := args[0].([]value)
		n := len(dst)
		if len(src) < n {
			n = len(src)
		}
		tmp := make([]value, n)
		for k := 0; k < n; k++ {
			tmp[k] = copyVal(src[k])
		}
		for k := 0; k < n; k++ {
			i.storeCell(&dst[k], tmp[k])
		}
		return n

	case "close": // close(chan T)
		close(args[0].(chan value))
		return nil

	case "delete": // delete(map[K]value, K)
		args[0].(*gmap).delete(i, args[1])
		return nil

	case "clear":
		switch x := args[0].(type) {
		case *gmap:
			if x != nil {
				for _, e := range append([]mapEntry(nil), x.entries...) {
					if !e.deleted {
						x.delete(i, e.key)
					}
				}
			}
		case []value:
			et := fn.Type().(*types.Signature).Params().At(0).Type().Underlying().(*types.Slice).Elem()
			for k := range x {
				i.store(et, &x[k], i.zero(et))
			}
		}
		return nil

	case "print", "println": // print(any, ...)
		ln := fn.Name() == "println"
		var buf bytes.Buffer
		for k, arg := range args {
			if k > 0 && ln {
				buf.WriteRune(' ')
			}
			if isStr(arg) {
				buf.WriteString(i.showString(arg))
			} else {
				buf.WriteString(toString(arg))
			}
		}
		if ln {
			buf.WriteRune('\n')
		}
		os.Stderr.Write(buf.Bytes())
		return nil

	case "len":
		switch x := args[0].(type) {
		case *symLenSlice:
			return lower(types.Int, x.n)
		case string, *symstr, *fdstr, *ropestr:
			return i.strLen(x)
		case array:
			return len(x)
		case *value:
			return len((*x).(array))
		case []value:
			return len(x)
		case *gmap:
			return x.len()
		case chan value:
			return len(x)
		default:
			panic(fmt.Sprintf("len: illegal operand: %T", x))
		}

	case "cap":
		switch x := args[0].(type) {
		case array:
			return cap(x)
		case *value:
			return cap((*x).(array))
		case []value:
			return cap(x)
		case chan value:
			return cap(x)
		default:
			panic(fmt.Sprintf("cap: illegal operand: %T", x))
		}

	case "min", "max":
		acc := args[0]
		for _, a := range args[1:] {
			var lt value
			if isStr(acc) {
				lt = i.strLess(a, acc)
			} else {
				lt = i.binop(token.LSS, nil, a, acc)
			}
			if fn.Name() == "max" {
				if isStr(acc) {
					lt = i.strLess(acc, a)
				} else {
					lt = i.binop(token.LSS, nil, acc, a)
				}
			}
			if b, ok := lt.(bool); ok {
				if b {
					acc = a
				}
				continue
			}
			if isSym(a) || isSym(acc) {
				ta, k := i.termOf(a)
				tacc, k2 := i.termOf(acc)
				if isSym(acc) {
					k = k2
				}
				acc = lower(k, i.ts.Ite(lt.(sym).t, ta, tacc))
				continue
			}
			if i.truth(lt) {
				acc = a
			}
		}
		return acc

	case "real":
		switch c := args[0].(type) {
		case complex64:
			return real(c)
		case complex128:
			return real(c)
		default:
			panic(fmt.Sprintf("real: illegal operand: %T", c))
		}

	case "imag":
		switch c := args[0].(type) {
		case complex64:
			return imag(c)
		case complex128:
			return imag(c)
		default:
			panic(fmt.Sprintf("imag: illegal operand: %T", c))
		}

	case "complex":
		switch f := args[0].(type) {
		case float32:
			return complex(f, args[1].(float32))
		case float64:
			return complex(f, args[1].(float64))
		default:
			panic(fmt.Sprintf("complex: illegal operand: %T", f))
		}

	case "panic":
		// ssa.Panic handles most cases; this is only for "go
		// panic" or "defer panic".
		panic(targetPanic{args[0]})

	case "recover":
		return doRecover(caller)

	case "ssa:wrapnilchk":
		recv := args[0]
		if recv.(*value) == nil {
			recvType := args[1]
			methodName := args[2]
			panic(targetPanic{caller.i.runtimeError(fmt.Sprintf("value method (%s).%s called using nil *%s pointer",
				recvType, methodName, recvType))})
		}
		return recv

	case "ssa:deferstack":
		return &caller.defers
	}

	panic("unknown built-in: " + fn.Name())
}

func (i *interpreter) rangeIter(x value, t types.Type) iter {
	switch x := x.(type) {
	case *gmap:
		if i.mapRev && x != nil {
			return &gmapIter{m: x, pos: len(x.entries) - 1, rev: true}
		}
		return &gmapIter{m: x}
	case string, *symstr, *fdstr, *ropestr:
		return &symstrIter{i: i, b: i.strBytes(x)}
	}
	panic(fmt.Sprintf("cannot range over %T", x))
}

// widen widens a basic typed value x to the widest type of its
// category, one of:
//
//	bool, int64, uint64, float64, complex128, string.
//
// This is inefficient but reduces the size of the cross-product of
// cases we have to consider.
func widen(x value) value {
	switch y := x.(type) {
	case bool, int64, uint64, float64, complex128, string, unsafe.Pointer:
		return x
	case int:
		return int64(y)
	case int8:
		return int64(y)
	case int16:
		return int64(y)
	case int32:
		return int64(y)
	case uint:
		return uint64(y)
	case uint8:
		return uint64(y)
	case uint16:
		return uint64(y)
	case uint32:
		return uint64(y)
	case uintptr:
		return uint64(y)
	case float32:
		return float64(y)
	case complex64:
		return complex128(y)
	}
	panic(fmt.Sprintf("cannot widen %T", x))
}

// conv converts the value x of type t_src to type t_dst and returns
// the result.
// Possible cases are described with the ssa.Convert operator.
func (i *interpreter) conv(t_dst, t_src types.Type, x value) value {
	ut_src := t_src.Underlying()
	ut_dst := t_dst.Underlying()
	if tp, ok := ut_dst.(*types.TypeParam); ok {
		panic(pathAbort{"unsupported", "conversion to type parameter " + tp.String()})
	}

	// symbolic scalar conversions
	if sx, ok := x.(sym); ok {
		switch d := ut_dst.(type) {
		case *types.Basic:
			if d.Info()&types.IsInteger != 0 {
				return i.symConvInt(d.Kind(), sx)
			}
			if d.Kind() == types.String {
				return mkStr(i.encodeRune(sx))
			}
			if d.Info()&types.IsBoolean != 0 {
				return sx
			}
		}
		panic(pathAbort{"unsupported", fmt.Sprintf("conversion of symbolic %v to %s", sx.k, t_dst)})
	}
	// strings with symbolic content
	switch xs := x.(type) {
	case *symstr, *fdstr, *ropestr:
		switch d := ut_dst.(type) {
		case *types.Basic:
			if d.Kind() == types.String {
				return x
			}
		case *types.Slice:
			switch d.Elem().Underlying().(*types.Basic).Kind() {
			case types.Byte:
				b := i.strBytes(xs)
				out := make([]value, len(b))
				copy(out, b)
				return out
			case types.Rune:
				b := i.strBytes(xs)
				var out []value
				for p := 0; p < len(b); {
					r, size := i.decodeRune(b[p:])
					out = append(out, r)
					p += size
				}
				return out
			}
		}
		panic(pathAbort{"unsupported", fmt.Sprintf("conversion of symbolic string to %s", t_dst)})
	}

	// Destination type is not an "untyped" type.
	if b, ok := ut_dst.(*types.Basic); ok && b.Info()&types.IsUntyped != 0 {
		panic("oops: conversion to 'untyped' type: " + b.String())
	}

	// Nor is it an interface type.
	if _, ok := ut_dst.(*types.Interface); ok {
		if _, ok := ut_src.(*types.Interface); ok {
			panic("oops: Convert should be ChangeInterface")
		} else {
			panic("oops: Convert should be MakeInterface")
		}
	}

	// Remaining conversions:
	//    + untyped string/number/bool constant to a specific
	//      representation.
	//    + conversions between non-complex numeric types.
	//    + conversions between complex numeric types.
	//    + integer/[]byte/[]rune -> string.
	//    + string -> []byte/[]rune.
	//
	// All are treated the same: first we extract the value to the
	// widest representation (int64, uint64, float64, complex128,
	// or string), then we convert it to the desired type.

	switch ut_src := ut_src.(type) {
	case *types.Pointer:
		switch ut_dst := ut_dst.(type) {
		case *types.Basic:
			// *value to unsafe.Pointer?
			if ut_dst.Kind() == types.UnsafePointer {
				return unsafe.Pointer(x.(*value))
			}
		}

	case *types.Slice:
		// []byte or []rune -> string
		switch ut_src.Elem().Underlying().(*types.Basic).Kind() {
		case types.Byte:
			x := x.([]value)
			b := make([]value, len(x))
			copy(b, x)
			return mkStr(b)

		case types.Rune:
			x := x.([]value)
			var b []value
			for k := range x {
				b = append(b, i.encodeRune(x[k])...)
			}
			return mkStr(b)
		}

	case *types.Basic:
		x = widen(x)

		// integer -> string?
		if ut_src.Info()&types.IsInteger != 0 {
			if ut_dst, ok := ut_dst.(*types.Basic); ok && ut_dst.Kind() == types.String {
				return mkStr(i.encodeRune(x))
			}
		}

		// string -> []rune, []byte or string?
		if s, ok := x.(string); ok {
			switch ut_dst := ut_dst.(type) {
			case *types.Slice:
				var res []value
				switch ut_dst.Elem().Underlying().(*types.Basic).Kind() {
				case types.Rune:
					for _, r := range []rune(s) {
						res = append(res, r)
					}
					return res
				case types.Byte:
					for _, b := range []byte(s) {
						res = append(res, b)
					}
					return res
				}
			case *types.Basic:
				if ut_dst.Kind() == types.String {
					return x.(string)
				}
			}
			break // fail: no other conversions for string
		}

		// unsafe.Pointer -> *value
		if ut_src.Kind() == types.UnsafePointer {
			// TODO(adonovan): this is wrong and cannot
			// really be fixed with the current design.
			//
			// return (*value)(x.(unsafe.Pointer))
			// creates a new pointer of a different
			// type but the underlying interface value
			// knows its "true" type and so cannot be
			// meaningfully used through the new pointer.
			//
			// To make this work, the interpreter needs to
			// simulate the memory layout of a real
			// compiled implementation.
			//
			// To at least preserve type-safety, we'll
			// just return the zero value of the
			// destination type.
			return i.zero(t_dst)
		}

		// Conversions between complex numeric types?
		if ut_src.Info()&types.IsComplex != 0 {
			switch ut_dst.(*types.Basic).Kind() {
			case types.Complex64:
				return complex64(x.(complex128))
			case types.Complex128:
				return x.(complex128)
			}
			break // fail: no other conversions for complex
		}

		// Conversions between non-complex numeric types?
		if ut_src.Info()&types.IsNumeric != 0 {
			kind := ut_dst.(*types.Basic).Kind()
			switch x := x.(type) {
			case int64: // signed integer -> numeric?
				switch kind {
				case types.Int:
					return int(x)
				case types.Int8:
					return int8(x)
				case types.Int16:
					return int16(x)
				case types.Int32:
					return int32(x)
				case types.Int64:
					return int64(x)
				case types.Uint:
					return uint(x)
				case types.Uint8:
					return uint8(x)
				case types.Uint16:
					return uint16(x)
				case types.Uint32:
					return uint32(x)
				case types.Uint64:
					return uint64(x)
				case types.Uintptr:
					return uintptr(x)
				case types.Float32:
					return float32(x)
				case types.Float64:
					return float64(x)
				}

			case uint64: // unsigned integer -> numeric?
				switch kind {
				case types.Int:
					return int(x)
				case types.Int8:
					return int8(x)
				case types.Int16:
					return int16(x)
				case types.Int32:
					return int32(x)
				case types.Int64:
					return int64(x)
				case types.Uint:
					return uint(x)
				case types.Uint8:
					return uint8(x)
				case types.Uint16:
					return uint16(x)
				case types.Uint32:
					return uint32(x)
				case types.Uint64:
					return uint64(x)
				case types.Uintptr:
					return uintptr(x)
				case types.Float32:
					return float32(x)
				case types.Float64:
					return float64(x)
				}

			case float64: // floating point -> numeric?
				switch kind {
				case types.Int:
					return int(x)
				case types.Int8:
					return int8(x)
				case types.Int16:
					return int16(x)
				case types.Int32:
					return int32(x)
				case types.Int64:
					return int64(x)
				case types.Uint:
					return uint(x)
				case types.Uint8:
					return uint8(x)
				case types.Uint16:
					return uint16(x)
				case types.Uint32:
					return uint32(x)
				case types.Uint64:
					return uint64(x)
				case types.Uintptr:
					return uintptr(x)
				case types.Float32:
					return float32(x)
				case types.Float64:
					return float64(x)
				}
			}
		}
	}

	panic(fmt.Sprintf("unsupported conversion: %s  -> %s, dynamic type %T", t_src, t_dst, x))
}

// sliceToArrayPointer converts the value x of type slice to type t_dst
// a pointer to array and returns the result.
func (i *interpreter) sliceToArrayPointer(t_dst, t_src types.Type, x value) value {
	if _, ok := t_src.Underlying().(*types.Slice); ok {
		if ptr, ok := t_dst.Underlying().(*types.Pointer); ok {
			if arr, ok := ptr.Elem().Underlying().(*types.Array); ok {
				x := x.([]value)
				if arr.Len() > int64(len(x)) {
					panic("array length is greater than slice length")
				}
				if x == nil {
					return i.zero(t_dst)
				}
				v := value(array(x[:arr.Len()]))
				return &v
			}
		}
	}

	panic(fmt.Sprintf("unsupported conversion: %s  -> %s, dynamic type %T", t_src, t_dst, x))
}

// checkInterface checks that the method set of x implements the
// interface itype.
// On success it returns "", on failure, an error message.
func checkInterface(i *interpreter, itype *types.Interface, x iface) string {
	if meth, _ := types.MissingMethod(x.t, itype, true); meth != nil {
		return fmt.Sprintf("interface conversion: %v is not %v: missing method %s",
			x.t, itype, meth.Name())
	}
	return "" // ok
}

// copied from $GOROOT/src/runtime/minmax.go

type floaty interface{ ~float32 | ~float64 }

func fmin[F floaty](x, y F) F {
	if y != y || y < x {
		return y
	}
	if x != x || x < y || x != 0 {
		return x
	}
	// x and y are both ±0
	// if either is -0, return -0; else return +0
	return forbits(x, y)
}

func fmax[F floaty](x, y F) F {
	if y != y || y > x {
		return y
	}
	if x != x || x > y || x != 0 {
		return x
	}
	// x and y are both ±0
	// if both are -0, return -0; else return +0
	return fandbits(x, y)
}

func forbits[F floaty](x, y F) F {
	switch unsafe.Sizeof(x) {
	case 4:
		*(*uint32)(unsafe.Pointer(&x)) |= *(*uint32)(unsafe.Pointer(&y))
	case 8:
		*(*uint64)(unsafe.Pointer(&x)) |= *(*uint64)(unsafe.Pointer(&y))
	}
	return x
}

func fandbits[F floaty](x, y F) F {
	switch unsafe.Sizeof(x) {
	case 4:
		*(*uint32)(unsafe.Pointer(&x)) &= *(*uint32)(unsafe.Pointer(&y))
	case 8:
		*(*uint64)(unsafe.Pointer(&x)) &= *(*uint64)(unsafe.Pointer(&y))
	}
	return x
}

// ---------------------------------------------------------------------------
// append with the Go 1.23 runtime growth policy, so cap()-dependent code and
// in-place aliasing behave as in the native build.

var classToSize = []int{0, 8, 16, 24, 32, 48, 64, 80, 96, 112, 128, 144, 160, 176, 192, 208, 224, 240, 256, 288, 320, 352, 384, 416, 448, 480, 512, 576, 640, 704, 768, 896, 1024, 1152, 1280, 1408, 1536, 1792, 2048, 2304, 2688, 3072, 3200, 3456, 4096, 4864, 5376, 6144, 6528, 6784, 6912, 8192, 9472, 9728, 10240, 10880, 12288, 13568, 14336, 16384, 18432, 19072, 20480, 21760, 24576, 27264, 28672, 32768}

func roundupsize(size int, noscan bool) int {
	req := size
	if !noscan && req > 512 {
		req += 8
		if req <= 32768 {
			for _, c := range classToSize {
				if c >= req {
					return c - 8
				}
			}
		}
		return ((req+8191)/8192)*8192 - 8
	}
	if req <= 32768 {
		for _, c := range classToSize {
			if c >= req {
				return c
			}
		}
	}
	return ((req + 8191) / 8192) * 8192
}

func hasPointers(t types.Type) bool {
	switch t := t.Underlying().(type) {
	case *types.Basic:
		return t.Kind() == types.String || t.Kind() == types.UnsafePointer
	case *types.Struct:
		for k := 0; k < t.NumFields(); k++ {
			if hasPointers(t.Field(k).Type()) {
				return true
			}
		}
		return false
	case *types.Array:
		return t.Len() > 0 && hasPointers(t.Elem())
	}
	return true
}

func (i *interpreter) growCap(st *types.Slice, oldCap, newLen int) int {
	newcap := oldCap
	doublecap := newcap + newcap
	if newLen > doublecap {
		newcap = newLen
	} else {
		const threshold = 256
		if oldCap < threshold {
			newcap = doublecap
		} else {
			for {
				newcap += (newcap + 3*threshold) >> 2
				if uint(newcap) >= uint(newLen) {
					break
				}
			}
		}
	}
	if st == nil {
		return newcap
	}
	es := int(i.sizes.Sizeof(st.Elem()))
	if es == 0 {
		return newcap
	}
	mem := roundupsize(newcap*es, !hasPointers(st.Elem()))
	return mem / es
}

func (i *interpreter) appendSlice(st *types.Slice, dst []value, add []value) []value {
	if len(add) == 0 {
		return dst
	}
	n := len(dst) + len(add)
	if n <= cap(dst) {
		out := dst[:n]
		for k := range add {
			cell := &out[len(dst)+k]
			if i.frozen != nil {
				if what, ok := i.frozen[cell]; ok {
					i.frozenWrite(cell, what, add[k])
				}
			}
			if i.epoch {
				i.undoLog = append(i.undoLog, storeRec{cell, *cell})
			}
			*cell = copyVal(add[k])
		}
		return out
	}
	nc := i.growCap(st, cap(dst), n)
	if nc < n {
		nc = n
	}
	out := make([]value, n, nc)
	for k := range dst {
		out[k] = copyVal(dst[k])
	}
	for k := range add {
		out[len(dst)+k] = copyVal(add[k])
	}
	if st != nil {
		z := out[n:nc]
		for k := range z {
			z[k] = i.zero(st.Elem())
		}
	}
	return out
}
