package gosx

// Single-variable canonicalisation: a condition that depends on exactly one
// small-domain variable (a byte, or a table selector) is rewritten, by exhaustive
// evaluation over that domain, into an equivalent disjunction of ranges. This is a
// term simplification (the solver still decides every branch); it keeps queries
// small when conditions are built from long ite chains over lexeme tables or from
// Unicode class predicates.

type varInfo struct {
	n    int // number of distinct variables (capped at 2)
	v    *Term
	size int
}

func (i *interpreter) termInfo(t *Term) varInfo {
	if i.infoMemo == nil {
		i.infoMemo = map[int]varInfo{}
	}
	if r, ok := i.infoMemo[t.id]; ok {
		return r
	}
	var r varInfo
	switch t.op {
	case OpVar:
		r = varInfo{n: 1, v: t, size: 1}
	case OpConst, OpTrue, OpFalse:
		r = varInfo{size: 1}
	default:
		r.size = 1
		for _, c := range []*Term{t.a, t.b, t.c} {
			if c == nil {
				continue
			}
			ci := i.termInfo(c)
			r.size += ci.size
			if r.size > 1<<20 {
				r.size = 1 << 20
			}
			switch {
			case ci.n == 0:
			case r.n == 0:
				r.n, r.v = ci.n, ci.v
			case ci.n >= 2 || r.n >= 2 || ci.v != r.v:
				r.n = 2
			}
		}
	}
	i.infoMemo[t.id] = r
	return r
}

// canon1 returns an equivalent, smaller term for single-variable conditions.
func (i *interpreter) canon1(c *Term) *Term {
	if c.w != 0 {
		return c
	}
	info := i.termInfo(c)
	if info.n != 1 {
		return c
	}
	if info.v.w == 8 && info.size < 150 {
		return c
	}
	if info.size < 16 {
		return c
	}
	v := info.v
	dom := 0
	switch {
	case v.w == 8:
		dom = 256
	case v.w == 1:
		dom = 2
	default:
		if d, ok := i.domains[int(v.val)]; ok && d <= 1024 {
			dom = d
		}
	}
	if dom == 0 {
		return c
	}
	if r, ok := i.canonMemo[c.id]; ok {
		return r
	}
	model := make([]uint64, int(v.val)+1)
	ts := i.ts
	acc := ts.Bool(false)
	start := -1
	fe := i.fastEval()
	for x := 0; x <= dom; x++ {
		in := false
		if x < dom {
			model[int(v.val)] = uint64(x)
			fe.gen++
			in = fe.eval(c, model) != 0
		}
		if in && start < 0 {
			start = x
		}
		if !in && start >= 0 {
			lo, hi := uint64(start), uint64(x-1)
			var r *Term
			switch {
			case lo == hi:
				r = ts.Cmp(OpEq, v, ts.Const(v.w, lo))
			case lo == 0 && hi == mask(v.w):
				r = ts.Bool(true)
			case lo == 0:
				r = ts.Cmp(OpUle, v, ts.Const(v.w, hi))
			case hi == mask(v.w):
				r = ts.Cmp(OpUle, ts.Const(v.w, lo), v)
			default:
				r = ts.And(ts.Cmp(OpUle, ts.Const(v.w, lo), v), ts.Cmp(OpUle, v, ts.Const(v.w, hi)))
			}
			acc = ts.Or(acc, r)
			start = -1
		}
	}
	// outside the declared domain the original term is irrelevant (sel < n is assumed);
	// for full-width domains the rewrite is exact.
	if i.canonMemo == nil {
		i.canonMemo = map[int]*Term{}
	}
	i.canonMemo[c.id] = acc
	return acc
}

// fastEvaluator evaluates terms with an array memo (term ids are dense per path).
type fastEvaluator struct {
	val   []uint64
	stamp []uint32
	gen   uint32
}

func (i *interpreter) fastEval() *fastEvaluator {
	if i.fe == nil {
		i.fe = &fastEvaluator{}
	}
	n := i.ts.next
	if len(i.fe.val) < n {
		i.fe.val = make([]uint64, n+n/2+64)
		i.fe.stamp = make([]uint32, n+n/2+64)
		i.fe.gen = 0
	}
	return i.fe
}

func (f *fastEvaluator) eval(t *Term, model []uint64) uint64 {
	if f.stamp[t.id] == f.gen {
		return f.val[t.id]
	}
	var r uint64
	switch t.op {
	case OpVar:
		if idx := int(t.val); idx < len(model) {
			r = model[idx] & mask(t.w)
		}
	case OpConst:
		r = t.val
	case OpTrue:
		r = 1
	case OpFalse:
		r = 0
	case OpNot:
		r = ^f.eval(t.a, model) & mask(t.w)
	case OpNeg:
		r = -f.eval(t.a, model) & mask(t.w)
	case OpZExt:
		r = f.eval(t.a, model)
	case OpSExt:
		r = uint64(sext(f.eval(t.a, model), t.a.w)) & mask(t.w)
	case OpExtract:
		r = (f.eval(t.a, model) >> t.val) & mask(t.w)
	case OpIte:
		if f.eval(t.a, model) != 0 {
			r = f.eval(t.b, model)
		} else {
			r = f.eval(t.c, model)
		}
	case OpBNot:
		r = 1 - f.eval(t.a, model)
	case OpBAnd:
		if f.eval(t.a, model) == 0 {
			r = 0
		} else {
			r = f.eval(t.b, model)
		}
	case OpBOr:
		if f.eval(t.a, model) != 0 {
			r = 1
		} else {
			r = f.eval(t.b, model)
		}
	case OpEq:
		r = b2u(f.eval(t.a, model) == f.eval(t.b, model))
	case OpUlt, OpUle, OpSlt, OpSle:
		r = evalBin(t.op, t.a.w, f.eval(t.a, model), f.eval(t.b, model))
	default:
		r = evalBin(t.op, t.w, f.eval(t.a, model), f.eval(t.b, model))
	}
	f.val[t.id] = r
	f.stamp[t.id] = f.gen
	return r
}

// ---------------------------------------------------------------------------
// Single-variable domain pre-filter. For every small-domain variable (a byte, a table
// selector) the set of values allowed by the single-variable conjuncts of the path
// condition is tracked exactly. A condition over one such variable that is constant on
// that set is folded (no fork, no query); everything else goes to the solver. This is
// constraint propagation in front of the SMT solver, not a replacement for it: it never
// decides a condition the path condition leaves open.

type varDomain struct {
	vals []uint64 // allowed values, ascending
}

func (i *interpreter) domainOf(v *Term) *varDomain {
	if i.doms == nil {
		i.doms = map[int]*varDomain{}
	}
	idx := int(v.val)
	if d, ok := i.doms[idx]; ok {
		return d
	}
	n := 0
	switch {
	case v.w == 8:
		n = 256
	case v.w == 1:
		n = 2
	default:
		if dn, ok := i.domains[idx]; ok && dn <= 1024 {
			n = dn
		}
	}
	if n == 0 {
		return nil
	}
	d := &varDomain{vals: make([]uint64, n)}
	for k := range d.vals {
		d.vals[k] = uint64(k)
	}
	i.doms[idx] = d
	return d
}

// domainEval classifies c over the current domain of its single variable:
// +1 always true, -1 always false, 0 open (or not applicable).
func (i *interpreter) domainEval(c *Term, narrow bool, keep bool) int {
	info := i.termInfo(c)
	if info.n != 1 {
		return 0
	}
	d := i.domainOf(info.v)
	if d == nil {
		return 0
	}
	if info.size > 4096 {
		return 0
	}
	model := i.scratchModel(int(info.v.val) + 1)
	fe := i.fastEval()
	nt := 0
	var kept []uint64
	for _, x := range d.vals {
		model[int(info.v.val)] = x
		fe.gen++
		t := fe.eval(c, model) != 0
		if t {
			nt++
		}
		if narrow && t == keep {
			kept = append(kept, x)
		}
	}
	if narrow {
		d.vals = kept
	}
	switch {
	case nt == len(d.vals) && !narrow:
		return 1
	case nt == 0 && !narrow:
		return -1
	}
	return 0
}

func (i *interpreter) scratchModel(n int) []uint64 {
	if len(i.scratch) < n {
		i.scratch = make([]uint64, n+16)
	}
	return i.scratch
}
