package gosx

// Maps: insertion-ordered (deterministic iteration), concrete keys indexed by a
// canonical Go key, symbolic keys compared by solver-decided branches.

import (
	"fmt"
	"go/types"
	"strings"
)

type mapEntry struct {
	key     value
	val     value
	deleted bool
	symKey  bool
}

type gmap struct {
	keyType types.Type
	idx     map[interface{}]int
	entries []mapEntry
	nsym    int
	n       int
}

func (i *interpreter) makeMap(kt types.Type) *gmap {
	return &gmap{keyType: kt, idx: map[interface{}]int{}}
}

// canonKey returns a comparable Go value identifying a fully concrete key.
func canonKey(v value) (interface{}, bool) {
	switch x := v.(type) {
	case bool, int, int8, int16, int32, int64, uint, uint8, uint16, uint32, uint64, uintptr, float32, float64, string, *value, chan value:
		return x, true
	case sym, *symstr, *fdstr, *ropestr, *decTerm:
		return nil, false
	case structure:
		var sb strings.Builder
		sb.WriteString("S{")
		for _, f := range x {
			c, ok := canonKey(f)
			if !ok {
				return nil, false
			}
			fmt.Fprintf(&sb, "%T:%v|", c, c)
		}
		return sb.String(), true
	case array:
		var sb strings.Builder
		sb.WriteString("A{")
		for _, f := range x {
			c, ok := canonKey(f)
			if !ok {
				return nil, false
			}
			fmt.Fprintf(&sb, "%T:%v|", c, c)
		}
		return sb.String(), true
	case iface:
		if x.t == nil {
			return "I<nil>", true
		}
		c, ok := canonKey(x.v)
		if !ok {
			return nil, false
		}
		return fmt.Sprintf("I{%s|%T:%v}", x.t.String(), c, c), true
	}
	panic(fmt.Sprintf("canonKey: unhashable %T", v))
}

// find returns the index of the entry equal to key, or -1. Forks on symbolic equality.
func (m *gmap) find(i *interpreter, key value) int {
	if m == nil {
		return -1
	}
	ck, conc := canonKey(key)
	if conc {
		if m.nsym > 0 {
			for k := range m.entries {
				e := &m.entries[k]
				if e.deleted || !e.symKey {
					continue
				}
				if i.truth(i.equalsV(m.keyType, e.key, key)) {
					return k
				}
			}
		}
		if k, ok := m.idx[ck]; ok {
			return k
		}
		return -1
	}
	// finite-domain key: only rows that are present can match
	if fd, ok := key.(*fdstr); ok && m.nsym == 0 {
		cands := map[int]*Term{}
		var order []int
		for r, row := range fd.tab {
			if k, ok := m.idx[row]; ok {
				c := i.ts.Cmp(OpEq, fd.sel, i.ts.Const(16, uint64(r)))
				if old, ok := cands[k]; ok {
					cands[k] = i.ts.Or(old, c)
				} else {
					cands[k] = c
					order = append(order, k)
				}
			}
		}
		for _, k := range order {
			if i.branch(cands[k]) {
				return k
			}
		}
		return -1
	}
	// symbolic key: prefer the entry the current model selects, then the others
	for k := range m.entries {
		e := &m.entries[k]
		if e.deleted {
			continue
		}
		eq := i.equalsV(m.keyType, e.key, key)
		if b, ok := eq.(bool); ok {
			if b {
				return k
			}
			continue
		}
		if i.truth(eq) {
			return k
		}
	}
	return -1
}

func (m *gmap) lookup(i *interpreter, key value) (value, bool) {
	k := m.find(i, key)
	if k < 0 {
		return nil, false
	}
	return m.entries[k].val, true
}

func (m *gmap) insert(i *interpreter, key, val value) {
	k := m.find(i, key)
	if k >= 0 {
		old := m.entries[k].val
		m.entries[k].val = val
		if i.epoch {
			i.undoFns = append(i.undoFns, func() { m.entries[k].val = old })
		}
		return
	}
	ck, conc := canonKey(key)
	m.entries = append(m.entries, mapEntry{key: key, val: val, symKey: !conc})
	pos := len(m.entries) - 1
	if conc {
		m.idx[ck] = pos
	} else {
		m.nsym++
	}
	m.n++
	if i.epoch {
		i.undoFns = append(i.undoFns, func() {
			m.entries = m.entries[:pos]
			if conc {
				delete(m.idx, ck)
			} else {
				m.nsym--
			}
			m.n--
		})
	}
}

func (m *gmap) delete(i *interpreter, key value) {
	k := m.find(i, key)
	if k < 0 {
		return
	}
	e := m.entries[k]
	m.entries[k].deleted = true
	ck, conc := canonKey(e.key)
	if conc {
		delete(m.idx, ck)
	} else {
		m.nsym--
	}
	m.n--
	if i.epoch {
		i.undoFns = append(i.undoFns, func() {
			m.entries[k].deleted = false
			if conc {
				m.idx[ck] = k
			} else {
				m.nsym++
			}
			m.n++
		})
	}
}

func (m *gmap) len() int {
	if m == nil {
		return 0
	}
	return m.n
}

type gmapIter struct {
	m   *gmap
	pos int
	rev bool
}

func (it *gmapIter) next() tuple {
	if it.m == nil {
		return tuple{false, nil, nil}
	}
	if it.rev {
		for it.pos >= 0 {
			if it.pos < len(it.m.entries) {
				e := it.m.entries[it.pos]
				it.pos--
				if !e.deleted {
					return tuple{true, e.key, e.val}
				}
			} else {
				it.pos--
			}
		}
		return tuple{false, nil, nil}
	}
	for it.pos < len(it.m.entries) {
		e := it.m.entries[it.pos]
		it.pos++
		if !e.deleted {
			return tuple{true, e.key, e.val}
		}
	}
	return tuple{false, nil, nil}
}
