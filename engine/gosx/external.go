package gosx

// Intrinsics: functions that cannot be interpreted from source (no body, unsafe,
// reflection, runtime services) or that are much cheaper natively.
// Every entry is part of the trusted environment model (DESIGN.md §5).

import (
	"fmt"
	"go/token"
	"go/types"
	"math"
	"strconv"
	"strings"
	"unicode"
	"unicode/utf8"

	"golang.org/x/tools/go/ssa"
)

const (
	tokenADD = token.ADD
	tokenLSS = token.LSS
)

type externalFn func(fr *frame, args []value) value

var externals map[string]externalFn

func init() {
	externals = map[string]externalFn{
		// --- runtime / misc
		"runtime.GC":           func(fr *frame, a []value) value { return nil },
		"runtime.Gosched":      func(fr *frame, a []value) value { return nil },
		"runtime.NumCPU":       func(fr *frame, a []value) value { return 4 },
		"runtime.GOMAXPROCS":   func(fr *frame, a []value) value { return 4 },
		"runtime.KeepAlive":    func(fr *frame, a []value) value { return nil },
		"runtime.SetFinalizer": func(fr *frame, a []value) value { return nil },
		"runtime.ReadMemStats": func(fr *frame, a []value) value { return nil },
		"runtime/debug.Stack":  func(fr *frame, a []value) value { return []value{} },
		"os.Getenv":            func(fr *frame, a []value) value { return "" },
		"time.Sleep":           func(fr *frame, a []value) value { return nil },
		"time.Now":             extTimeNow,
		"time.Since":           func(fr *frame, a []value) value { return int64(1000) },
		"time.Until":           func(fr *frame, a []value) value { return int64(1000) },
		"time.runtimeNano":     func(fr *frame, a []value) value { fr.i.tokClock += 1000; return fr.i.tokClock },

		// --- math
		"math.Float64bits":     func(fr *frame, a []value) value { return math.Float64bits(a[0].(float64)) },
		"math.Float64frombits": func(fr *frame, a []value) value { return math.Float64frombits(a[0].(uint64)) },
		"math.Float32bits":     func(fr *frame, a []value) value { return math.Float32bits(a[0].(float32)) },
		"math.Float32frombits": func(fr *frame, a []value) value { return math.Float32frombits(a[0].(uint32)) },
		"math.Abs":             func(fr *frame, a []value) value { return math.Abs(a[0].(float64)) },
		"math.Floor":           func(fr *frame, a []value) value { return math.Floor(a[0].(float64)) },
		"math.Ceil":            func(fr *frame, a []value) value { return math.Ceil(a[0].(float64)) },
		"math.Sqrt":            func(fr *frame, a []value) value { return math.Sqrt(a[0].(float64)) },
		"math.Log":             func(fr *frame, a []value) value { return math.Log(a[0].(float64)) },
		"math.Log2":            func(fr *frame, a []value) value { return math.Log2(a[0].(float64)) },
		"math.Pow":             func(fr *frame, a []value) value { return math.Pow(a[0].(float64), a[1].(float64)) },
		"math.Inf":             func(fr *frame, a []value) value { return math.Inf(a[0].(int)) },
		"math.IsNaN":           func(fr *frame, a []value) value { return math.IsNaN(a[0].(float64)) },
		"math.IsInf":           func(fr *frame, a []value) value { return math.IsInf(a[0].(float64), a[1].(int)) },
		"math.NaN":             func(fr *frame, a []value) value { return math.NaN() },
		"math.Max":             func(fr *frame, a []value) value { return math.Max(a[0].(float64), a[1].(float64)) },
		"math.Min":             func(fr *frame, a []value) value { return math.Min(a[0].(float64), a[1].(float64)) },

		// --- sync (sequential semantics)
		"(*sync.Mutex).Lock":      extMutexLock,
		"(*sync.Mutex).Unlock":    extMutexUnlock,
		"(*sync.Mutex).TryLock":   func(fr *frame, a []value) value { return true },
		"(*sync.RWMutex).Lock":    extMutexLock, // readers are serialised too (fewer interleavings, same ordering edges)
		"(*sync.RWMutex).Unlock":  extMutexUnlock,
		"(*sync.RWMutex).RLock":   extMutexLock,
		"(*sync.RWMutex).RUnlock": extMutexUnlock,
		"(*sync.WaitGroup).Add":   extNop,
		"(*sync.WaitGroup).Done":  extNop,
		"(*sync.WaitGroup).Wait":  func(fr *frame, a []value) value { fr.i.waitAll(); return nil },
		"(*sync.Once).Do":         extOnceDo,
		"(*sync.Pool).Get":        extPoolGet,
		"(*sync.Pool).Put":        extPoolPut,

		// --- sync/atomic (plain operations; scheduler mode adds yield points)
		"sync/atomic.AddInt32":             extAtomicAdd,
		"sync/atomic.AddInt64":             extAtomicAdd,
		"sync/atomic.AddUint32":            extAtomicAdd,
		"sync/atomic.AddUint64":            extAtomicAdd,
		"sync/atomic.AddUintptr":           extAtomicAdd,
		"sync/atomic.LoadInt32":            extAtomicLoad,
		"sync/atomic.LoadInt64":            extAtomicLoad,
		"sync/atomic.LoadUint32":           extAtomicLoad,
		"sync/atomic.LoadUint64":           extAtomicLoad,
		"sync/atomic.LoadUintptr":          extAtomicLoad,
		"sync/atomic.LoadPointer":          extAtomicLoad,
		"sync/atomic.StoreInt32":           extAtomicStore,
		"sync/atomic.StoreInt64":           extAtomicStore,
		"sync/atomic.StoreUint32":          extAtomicStore,
		"sync/atomic.StoreUint64":          extAtomicStore,
		"sync/atomic.StoreUintptr":         extAtomicStore,
		"sync/atomic.StorePointer":         extAtomicStore,
		"sync/atomic.SwapInt32":            extAtomicSwap,
		"sync/atomic.SwapInt64":            extAtomicSwap,
		"sync/atomic.SwapUint32":           extAtomicSwap,
		"sync/atomic.SwapUint64":           extAtomicSwap,
		"sync/atomic.CompareAndSwapInt32":  extAtomicCAS,
		"sync/atomic.CompareAndSwapInt64":  extAtomicCAS,
		"sync/atomic.CompareAndSwapUint32": extAtomicCAS,
		"sync/atomic.CompareAndSwapUint64": extAtomicCAS,

		"(*sync/atomic.Value).Store": func(fr *frame, a []value) value {
			st := (*(a[0].(*value))).(structure)
			if a[1].(iface).t == nil {
				panic(targetPanic{fr.i.runtimeError("sync/atomic: store of nil value into Value")})
			}
			fr.i.storeCell(&st[0], a[1])
			return nil
		},
		"(*sync/atomic.Value).Load": func(fr *frame, a []value) value {
			st := (*(a[0].(*value))).(structure)
			return st[0]
		},

		// --- strings.Builder (uses unsafe)
		"(*strings.Builder).WriteString": extBuilderWriteString,
		"(*strings.Builder).WriteByte":   extBuilderWriteByte,
		"(*strings.Builder).WriteRune":   extBuilderWriteRune,
		"(*strings.Builder).Write":       extBuilderWrite,
		"(*strings.Builder).String":      extBuilderString,
		"(*strings.Builder).Len":         extBuilderLen,
		"(*strings.Builder).Cap":         extBuilderLen,
		"(*strings.Builder).Reset":       extBuilderReset,
		"(*strings.Builder).Grow":        extNop,

		// --- utf8
		"unicode/utf8.DecodeRune":         extDecodeRune,
		"unicode/utf8.DecodeRuneInString": extDecodeRune,

		// --- errors
		"errors.Is": extErrorsIs,
		"errors.As": extErrorsAs,

		// --- sort
		"sort.Slice":       extSortSlice,
		"sort.SliceStable": extSortSlice,
		"sort.Strings":     extSortStrings,
		"sort.Ints":        extSortInts,

		// --- fmt
		"fmt.Sprintf":  extSprintf,
		"fmt.Errorf":   extErrorf,
		"fmt.Sprint":   extSprint,
		"fmt.Sprintln": extSprintln,
		"fmt.Fprintf":  extFprintf,
		"fmt.Fprint":   extFprint,
		"fmt.Fprintln": extFprintln,
		"fmt.Printf":   extNopTuple2,
		"fmt.Println":  extNopTuple2,
		"fmt.Print":    extNopTuple2,
		"fmt.Sscanf":   extSscanf,

		"strings.Clone":              func(fr *frame, a []value) value { return a[0] },
		"internal/stringslite.Clone": func(fr *frame, a []value) value { return a[0] },
		"strconv.cloneString":        func(fr *frame, a []value) value { return a[0] },
		"internal/bytealg.MakeNoZero": func(fr *frame, a []value) value {
			n := int(fr.i.concInt(a[0]))
			out := make([]value, n)
			for k := range out {
				out[k] = uint8(0)
			}
			return out
		},

		// --- log (formatting and I/O of log lines are not the subject of any property)
		"(*log.Logger).Printf":  extNop,
		"(*log.Logger).Println": extNop,
		"(*log.Logger).Print":   extNop,
		"(*log.Logger).Output":  func(fr *frame, a []value) value { return iface{} },
		"log.New": func(fr *frame, a []value) value {
			var cell value = fr.i.zero(mustDeref(fr.fn.Signature.Results().At(0).Type()))
			return &cell
		},
		"log.Printf":  extNop,
		"log.Println": extNop,
		"log.Print":   extNop,
	}
	for name, f := range stringFuncs {
		externals[name] = f
	}
}

func extNop(fr *frame, a []value) value { return nil }

func extMutexLock(fr *frame, a []value) value {
	i := fr.i
	if i.sch == nil || len(i.sch.gs) == 1 {
		return nil
	}
	p := a[0].(*value)
	i.yield()
	me := i.sch.cur
	for i.sch.mutexes[p] != 0 && i.sch.mutexes[p] != me.id+1 {
		me.blocked = func() bool { return i.sch.mutexes[p] != 0 }
		i.switchFrom(me, false)
		me.blocked = nil
	}
	i.sch.mutexes[p] = me.id + 1
	i.raceAcquire(p)
	return nil
}

func extMutexUnlock(fr *frame, a []value) value {
	i := fr.i
	if i.sch == nil || len(i.sch.gs) == 1 {
		return nil
	}
	i.raceRelease(a[0].(*value))
	delete(i.sch.mutexes, a[0].(*value))
	i.yield()
	return nil
}
func extNopTuple2(fr *frame, a []value) value {
	return tuple{0, iface{}}
}

func (i *interpreter) lookupExternal(fn *ssa.Function, name string) externalFn {
	if fn.Pkg != nil {
		p := fn.Pkg.Pkg.Path()
		if strings.HasSuffix(p, "/zzvx") {
			if f, ok := vxFuncs[fn.Name()]; ok {
				return f
			}
			return nil
		}
		if p == "unicode" {
			if f, ok := unicodeFuncs[fn.Name()]; ok {
				return f
			}
		}
	}
	if f, ok := externals[name]; ok {
		return f
	}
	if f, ok := regexpFuncs[name]; ok {
		return f
	}
	if f, ok := stringFuncs[name]; ok {
		return f
	}
	if f, ok := jsonFuncs[name]; ok {
		return f
	}
	return nil
}

func typesNewPointer(t types.Type) types.Type { return types.NewPointer(t) }

func extTimeNow(fr *frame, a []value) value {
	fr.i.tokClock += 1000
	// time.Time{wall uint64, ext int64, loc *Location}
	return structure{uint64(0), fr.i.tokClock, (*value)(nil)}
}

// --- sync.Once: struct { done atomic.Uint32 (struct{_ noCopy; v uint32}); m Mutex }

func extOnceDo(fr *frame, a []value) value {
	o := a[0].(*value)
	fr.i.raceAcquire(o)
	defer fr.i.raceRelease(o)
	st := (*o).(structure)
	// field 0 is "done" whose representation differs across Go versions
	switch d := st[0].(type) {
	case uint32:
		if d != 0 {
			return nil
		}
		fr.i.storeCell(&st[0], uint32(1))
	case structure:
		last := len(d) - 1
		if d[last].(uint32) != 0 {
			return nil
		}
		fr.i.storeCell(&d[last], uint32(1))
	default:
		panic(pathAbort{"unsupported", fmt.Sprintf("sync.Once layout %T", d)})
	}
	call(fr.i, fr, 0, a[1], nil)
	return nil
}

// --- sync.Pool: LIFO stack per pool (a single-P process without GC).

type poolState struct {
	items []value
}

func (i *interpreter) poolOf(p *value) *poolState {
	ps, ok := i.pools[p]
	if !ok {
		ps = &poolState{}
		i.pools[p] = ps
		if i.epoch {
			i.undoFns = append(i.undoFns, func() { delete(i.pools, p) })
		}
	}
	return ps
}

func extPoolGet(fr *frame, a []value) value {
	i := fr.i
	p := a[0].(*value)
	i.raceAcquire(p)
	ps := i.poolOf(p)
	if n := len(ps.items); n > 0 {
		v := ps.items[n-1]
		ps.items = ps.items[:n-1]
		if i.epoch {
			i.undoFns = append(i.undoFns, func() { ps.items = append(ps.items, v) })
		}
		return v
	}
	st := (*p).(structure)
	nf := st[len(st)-1] // New func() any is the last field
	switch f := nf.(type) {
	case *ssa.Function:
		if f == nil {
			return iface{}
		}
	case nil:
		return iface{}
	}
	return call(i, fr, 0, nf, nil)
}

func extPoolPut(fr *frame, a []value) value {
	i := fr.i
	p := a[0].(*value)
	x := a[1].(iface)
	if x.t == nil {
		return nil
	}
	i.raceRelease(p)
	ps := i.poolOf(p)
	// pool monitor: an object that is already in the free list is put again (double release):
	// two later Get calls would hand the same object to two owners
	if xp, ok := x.v.(*value); ok && xp != nil {
		for _, it := range ps.items {
			if ip, ok := it.(iface); ok {
				if q, ok := ip.v.(*value); ok && q == xp {
					i.violation("pool_double_put", "sync.Pool.Put of an object that is already in the pool (released twice): "+x.t.String(), i.tape())
				}
			}
		}
	}
	ps.items = append(ps.items, x)
	if i.epoch {
		i.undoFns = append(i.undoFns, func() { ps.items = ps.items[:len(ps.items)-1] })
	}
	return nil
}

// --- atomics

func extAtomicAdd(fr *frame, a []value) value {
	fr.i.yield()
	fr.i.raceAtomic(a[0], true)
	defer fr.i.raceRelease(a[0])
	p := a[0].(*value)
	nv := fr.i.binop(tokenADD, nil, *p, a[1])
	fr.i.storeCell(p, nv)
	return nv
}
func extAtomicLoad(fr *frame, a []value) value {
	fr.i.yield()
	fr.i.raceAtomic(a[0], false)
	defer fr.i.raceRelease(a[0])
	return *(a[0].(*value))
}
func extAtomicStore(fr *frame, a []value) value {
	fr.i.yield()
	fr.i.raceAtomic(a[0], true)
	defer fr.i.raceRelease(a[0])
	fr.i.storeCell(a[0].(*value), a[1])
	return nil
}
func extAtomicSwap(fr *frame, a []value) value {
	fr.i.yield()
	fr.i.raceAtomic(a[0], true)
	defer fr.i.raceRelease(a[0])
	p := a[0].(*value)
	old := *p
	fr.i.storeCell(p, a[1])
	return old
}
func extAtomicCAS(fr *frame, a []value) value {
	fr.i.yield()
	fr.i.raceAtomic(a[0], true)
	defer fr.i.raceRelease(a[0])
	p := a[0].(*value)
	eq := fr.i.equalsV(nil, *p, a[1])
	if fr.i.truth(eq) {
		fr.i.storeCell(p, a[2])
		return true
	}
	return false
}

// --- strings.Builder { addr *Builder; buf []byte }: every method is an intrinsic, so
// the accumulated text is kept as one string value (possibly a rope) in buf[0].

func builderBuf(a []value) *value {
	b := a[0].(*value)
	if b == nil {
		panic(targetPanic{iface{}})
	}
	st := (*b).(structure)
	return &st[1]
}

func builderGet(a []value) value {
	p := builderBuf(a)
	cur, _ := (*p).([]value)
	if len(cur) == 1 && isStr(cur[0]) {
		return cur[0]
	}
	if len(cur) == 0 {
		return ""
	}
	return mkStr(append([]value(nil), cur...))
}

func builderAppend(fr *frame, a []value, s value) {
	acc := fr.i.strConcat(builderGet(a), s)
	fr.i.storeCell(builderBuf(a), []value{acc})
}

func extBuilderWriteString(fr *frame, a []value) value {
	builderAppend(fr, a, a[1])
	return tuple{fr.i.strLen(a[1]), iface{}}
}
func extBuilderWriteByte(fr *frame, a []value) value {
	builderAppend(fr, a, mkStr([]value{a[1]}))
	return iface{}
}
func extBuilderWriteRune(fr *frame, a []value) value {
	bs := fr.i.encodeRune(a[1])
	builderAppend(fr, a, mkStr(bs))
	return tuple{len(bs), iface{}}
}
func extBuilderWrite(fr *frame, a []value) value {
	bs := a[1].([]value)
	builderAppend(fr, a, mkStr(append([]value(nil), bs...)))
	return tuple{len(bs), iface{}}
}
func extBuilderString(fr *frame, a []value) value {
	return builderGet(a)
}
func extBuilderLen(fr *frame, a []value) value {
	return fr.i.strLen(builderGet(a))
}
func extBuilderReset(fr *frame, a []value) value {
	fr.i.storeCell(builderBuf(a), []value(nil))
	return nil
}

// --- utf8

func extDecodeRune(fr *frame, a []value) value {
	var b []value
	if isStr(a[0]) {
		b = fr.i.strBytes(a[0])
	} else {
		b = a[0].([]value)
	}
	if len(b) == 0 {
		return tuple{rune(utf8.RuneError), 0}
	}
	r, size := fr.i.decodeRune(b)
	return tuple{r, size}
}

// --- errors.Is / errors.As over the real Unwrap chains

// callMethod invokes the named niladic method of recv's dynamic type.
func (i *interpreter) callMethod(fr *frame, recv iface, name string) (value, bool) {
	if recv.t == nil {
		return nil, false
	}
	ms := i.prog.MethodSets.MethodSet(recv.t)
	for k := 0; k < ms.Len(); k++ {
		sel := ms.At(k)
		if sel.Obj().Name() == name {
			fn := i.prog.MethodValue(sel)
			if fn == nil {
				return nil, false
			}
			return call(i, fr, 0, fn, []value{recv.v}), true
		}
	}
	return nil, false
}

func (i *interpreter) unwrapErr(fr *frame, e iface) []iface {
	if e.t == nil {
		return nil
	}
	ms := i.prog.MethodSets.MethodSet(e.t)
	for k := 0; k < ms.Len(); k++ {
		sel := ms.At(k)
		if sel.Obj().Name() != "Unwrap" {
			continue
		}
		sig := sel.Type().(*types.Signature)
		if sig.Params().Len() != 0 || sig.Results().Len() != 1 {
			return nil
		}
		fn := i.prog.MethodValue(sel)
		r := call(i, fr, 0, fn, []value{e.v})
		switch r := r.(type) {
		case iface:
			if r.t == nil {
				return nil
			}
			return []iface{r}
		case []value:
			var out []iface
			for _, x := range r {
				if xi := x.(iface); xi.t != nil {
					out = append(out, xi)
				}
			}
			return out
		}
	}
	return nil
}

func extErrorsIs(fr *frame, a []value) value {
	i := fr.i
	err, target := a[0].(iface), a[1].(iface)
	if err.t == nil || target.t == nil {
		return err.t == nil && target.t == nil
	}
	comparable := types.Comparable(target.t)
	var rec func(e iface, depth int) bool
	rec = func(e iface, depth int) bool {
		if depth > 64 {
			return false
		}
		if comparable && sameType(e.t, target.t) && i.truth(i.equalsV(e.t, e.v, target.v)) {
			return true
		}
		ms := i.prog.MethodSets.MethodSet(e.t)
		for k := 0; k < ms.Len(); k++ {
			sel := ms.At(k)
			if sel.Obj().Name() == "Is" {
				sig := sel.Type().(*types.Signature)
				if sig.Params().Len() == 1 && sig.Results().Len() == 1 {
					fn := i.prog.MethodValue(sel)
					if i.truth(call(i, fr, 0, fn, []value{e.v, target})) {
						return true
					}
				}
			}
		}
		for _, u := range i.unwrapErr(fr, e) {
			if rec(u, depth+1) {
				return true
			}
		}
		return false
	}
	return rec(err, 0)
}

func extErrorsAs(fr *frame, a []value) value {
	i := fr.i
	err, target := a[0].(iface), a[1].(iface)
	if err.t == nil {
		return false
	}
	if target.t == nil {
		panic(targetPanic{i.runtimeError("errors: target cannot be nil")})
	}
	pt, ok := target.t.Underlying().(*types.Pointer)
	if !ok {
		panic(targetPanic{i.runtimeError("errors: target must be a non-nil pointer")})
	}
	tp := target.v.(*value)
	if tp == nil {
		panic(targetPanic{i.runtimeError("errors: target must be a non-nil pointer")})
	}
	elem := pt.Elem()
	var rec func(e iface, depth int) bool
	rec = func(e iface, depth int) bool {
		if depth > 64 {
			return false
		}
		if it, isI := elem.Underlying().(*types.Interface); isI {
			if types.Implements(e.t, it) {
				i.storeCell(tp, e)
				return true
			}
		} else if types.Identical(e.t, elem) {
			i.store(elem, tp, e.v)
			return true
		}
		for _, u := range i.unwrapErr(fr, e) {
			if rec(u, depth+1) {
				return true
			}
		}
		return false
	}
	return rec(err, 0)
}

// --- sort

func extSortSlice(fr *frame, a []value) value {
	i := fr.i
	s := a[0].(iface).v.([]value)
	less := a[1]
	// insertion sort driven by the target's less(i, j) (stable)
	for x := 1; x < len(s); x++ {
		for y := x; y > 0; y-- {
			if !i.truth(call(i, fr, 0, less, []value{y, y - 1})) {
				break
			}
			tx, ty := copyVal(s[y]), copyVal(s[y-1])
			i.storeCell(&s[y], ty)
			i.storeCell(&s[y-1], tx)
		}
	}
	return nil
}

func extSortStrings(fr *frame, a []value) value {
	i := fr.i
	s := a[0].([]value)
	for x := 1; x < len(s); x++ {
		for y := x; y > 0; y-- {
			if !i.truth(i.strLess(s[y], s[y-1])) {
				break
			}
			tx, ty := s[y], s[y-1]
			i.storeCell(&s[y], ty)
			i.storeCell(&s[y-1], tx)
		}
	}
	return nil
}

func extSortInts(fr *frame, a []value) value {
	i := fr.i
	s := a[0].([]value)
	for x := 1; x < len(s); x++ {
		for y := x; y > 0; y-- {
			if !i.truth(i.binop(tokenLSS, nil, s[y], s[y-1])) {
				break
			}
			tx, ty := s[y], s[y-1]
			i.storeCell(&s[y], ty)
			i.storeCell(&s[y-1], tx)
		}
	}
	return nil
}

// ---------------------------------------------------------------------------
// strings.* : native on concrete arguments, symbolic versions for the common ones.

var stringFuncs = map[string]externalFn{}

func allConcreteStr(vs ...value) bool {
	for _, v := range vs {
		if _, ok := v.(string); !ok {
			return false
		}
	}
	return true
}

func strList(vs []value) ([]string, bool) {
	out := make([]string, len(vs))
	for k, v := range vs {
		s, ok := v.(string)
		if !ok {
			return nil, false
		}
		out[k] = s
	}
	return out, true
}

func toValues(ss []string) []value {
	if ss == nil {
		return nil
	}
	out := make([]value, len(ss))
	for k, s := range ss {
		out[k] = s
	}
	return out
}

func init() {
	s1 := func(name string, f func(string) string, symf func(i *interpreter, v value) value) {
		stringFuncs[name] = func(fr *frame, a []value) value {
			if s, ok := a[0].(string); ok {
				return f(s)
			}
			if fd, ok := a[0].(*fdstr); ok {
				return fdMap(fd, f)
			}
			if symf != nil {
				return symf(fr.i, a[0])
			}
			return f(fr.i.concString(a[0]))
		}
	}
	s1("strings.ToUpper", strings.ToUpper, func(i *interpreter, v value) value { return i.symCase(v, true) })
	s1("strings.ToLower", strings.ToLower, func(i *interpreter, v value) value { return i.symCase(v, false) })
	s1("strings.TrimSpace", strings.TrimSpace, func(i *interpreter, v value) value { return i.symTrimSpace(v) })
	s1("strings.Title", strings.Title, nil)

	pred2 := func(name string, f func(string, string) bool, symf func(i *interpreter, a, b value) value) {
		stringFuncs[name] = func(fr *frame, a []value) value {
			if allConcreteStr(a[0], a[1]) {
				return f(a[0].(string), a[1].(string))
			}
			if fd, ok := a[0].(*fdstr); ok {
				if s, ok := a[1].(string); ok {
					return fr.i.fdPred(fd, func(r string) bool { return f(r, s) })
				}
			}
			if fd, ok := a[1].(*fdstr); ok {
				if s, ok := a[0].(string); ok {
					return fr.i.fdPred(fd, func(r string) bool { return f(s, r) })
				}
			}
			if symf != nil {
				return symf(fr.i, a[0], a[1])
			}
			return f(fr.i.concString(a[0]), fr.i.concString(a[1]))
		}
	}
	pred2("strings.EqualFold", strings.EqualFold, func(i *interpreter, a, b value) value { return i.symEqualFold(a, b) })
	pred2("strings.HasPrefix", strings.HasPrefix, func(i *interpreter, a, b value) value { return i.symHasPrefix(a, b) })
	pred2("strings.HasSuffix", strings.HasSuffix, func(i *interpreter, a, b value) value { return i.symHasSuffix(a, b) })
	pred2("strings.Contains", strings.Contains, func(i *interpreter, a, b value) value { return i.symContains(a, b) })
	pred2("strings.ContainsAny", strings.ContainsAny, nil)

	int2 := func(name string, f func(string, string) int) {
		stringFuncs[name] = func(fr *frame, a []value) value {
			if allConcreteStr(a[0], a[1]) {
				return f(a[0].(string), a[1].(string))
			}
			if fd, ok := a[0].(*fdstr); ok {
				if s, ok := a[1].(string); ok {
					return fr.i.fdInt(fd, func(r string) int64 { return int64(f(r, s)) })
				}
			}
			if name == "strings.Index" {
				return fr.i.symIndex(a[0], a[1])
			}
			return f(fr.i.concString(a[0]), fr.i.concString(a[1]))
		}
	}
	int2("strings.Index", strings.Index)
	int2("strings.LastIndex", strings.LastIndex)
	int2("strings.Count", strings.Count)
	int2("strings.Compare", strings.Compare)
	int2("strings.IndexAny", strings.IndexAny)

	stringFuncs["strings.IndexByte"] = func(fr *frame, a []value) value {
		if s, ok := a[0].(string); ok {
			if c, ok := a[1].(uint8); ok {
				return strings.IndexByte(s, c)
			}
		}
		return fr.i.symIndexByte(fr.i.strBytes(a[0]), a[1])
	}
	stringFuncs["bytes.IndexByte"] = func(fr *frame, a []value) value {
		return fr.i.symIndexByte(a[0].([]value), a[1])
	}
	stringFuncs["strings.IndexRune"] = func(fr *frame, a []value) value {
		if s, ok := a[0].(string); ok {
			if c, ok := a[1].(int32); ok {
				return strings.IndexRune(s, c)
			}
		}
		return nil2("strings.IndexRune on symbolic")
	}
	stringFuncs["strings.ContainsRune"] = func(fr *frame, a []value) value {
		if s, ok := a[0].(string); ok {
			if c, ok := a[1].(int32); ok {
				return strings.ContainsRune(s, c)
			}
			if r, ok := a[1].(sym); ok {
				acc := fr.i.ts.Bool(false)
				for _, c := range s {
					acc = fr.i.ts.Or(acc, fr.i.ts.Cmp(OpEq, r.t, fr.i.ts.Const(32, uint64(uint32(c)))))
				}
				return lower(types.Bool, acc)
			}
		}
		return nil2("strings.ContainsRune on symbolic")
	}
	str3 := func(name string, f func(string, string, string) string) {
		stringFuncs[name] = func(fr *frame, a []value) value {
			if allConcreteStr(a[0], a[1], a[2]) {
				return f(a[0].(string), a[1].(string), a[2].(string))
			}
			if fd, ok := a[0].(*fdstr); ok && allConcreteStr(a[1], a[2]) {
				return fdMap(fd, func(r string) string { return f(r, a[1].(string), a[2].(string)) })
			}
			return f(fr.i.concString(a[0]), fr.i.concString(a[1]), fr.i.concString(a[2]))
		}
	}
	str3("strings.ReplaceAll", strings.ReplaceAll)
	stringFuncs["strings.Replace"] = func(fr *frame, a []value) value {
		n := int(fr.i.concInt(a[3]))
		if fd, ok := a[0].(*fdstr); ok && allConcreteStr(a[1], a[2]) {
			return fdMap(fd, func(r string) string { return strings.Replace(r, a[1].(string), a[2].(string), n) })
		}
		return strings.Replace(fr.i.concString(a[0]), fr.i.concString(a[1]), fr.i.concString(a[2]), n)
	}
	str2 := func(name string, f func(string, string) string) {
		stringFuncs[name] = func(fr *frame, a []value) value {
			if allConcreteStr(a[0], a[1]) {
				return f(a[0].(string), a[1].(string))
			}
			if fd, ok := a[0].(*fdstr); ok {
				if s, ok := a[1].(string); ok {
					return fdMap(fd, func(r string) string { return f(r, s) })
				}
			}
			i := fr.i
			switch name {
			case "strings.TrimPrefix":
				if i.truth(i.symHasPrefix(a[0], a[1])) {
					return mkStr(i.strBytes(a[0])[len(i.strBytes(a[1])):])
				}
				return a[0]
			case "strings.TrimSuffix":
				if i.truth(i.symHasSuffix(a[0], a[1])) {
					b := i.strBytes(a[0])
					return mkStr(b[:len(b)-len(i.strBytes(a[1]))])
				}
				return a[0]
			case "strings.TrimRight", "strings.TrimLeft", "strings.Trim":
				if cut, ok := a[1].(string); ok {
					return i.symTrimSet(a[0], cut, name != "strings.TrimRight", name != "strings.TrimLeft")
				}
			}
			return f(i.concString(a[0]), i.concString(a[1]))
		}
	}
	str2("strings.TrimPrefix", strings.TrimPrefix)
	str2("strings.TrimSuffix", strings.TrimSuffix)
	str2("strings.Trim", strings.Trim)
	str2("strings.TrimLeft", strings.TrimLeft)
	str2("strings.TrimRight", strings.TrimRight)

	stringFuncs["strings.Repeat"] = func(fr *frame, a []value) value {
		n := fr.i.concInt(a[1])
		if n < 0 {
			panic(targetPanic{fr.i.runtimeError("strings: negative Repeat count")})
		}
		if s, ok := a[0].(string); ok {
			if int64(len(s))*n > 1<<24 {
				panic(pathAbort{"unsupported", "strings.Repeat too large"})
			}
			return strings.Repeat(s, int(n))
		}
		b := fr.i.strBytes(a[0])
		var out []value
		for k := int64(0); k < n; k++ {
			out = append(out, b...)
		}
		return mkStr(out)
	}
	stringFuncs["strings.Join"] = func(fr *frame, a []value) value {
		elems := a[0].([]value)
		if ss, ok := strList(elems); ok {
			if sep, ok := a[1].(string); ok {
				return strings.Join(ss, sep)
			}
		}
		var acc value = ""
		for k, e := range elems {
			if k > 0 {
				acc = fr.i.strConcat(acc, a[1])
			}
			acc = fr.i.strConcat(acc, e)
		}
		return acc
	}
	stringFuncs["strings.Split"] = func(fr *frame, a []value) value {
		if allConcreteStr(a[0], a[1]) {
			return toValues(strings.Split(a[0].(string), a[1].(string)))
		}
		if fd, ok := a[0].(*fdstr); ok {
			if sep, ok := a[1].(string); ok {
				// row-wise when every row splits into the same number of parts
				n := -1
				same := true
				for _, r := range fd.tab {
					c := len(strings.Split(r, sep))
					if n >= 0 && c != n {
						same = false
						break
					}
					n = c
				}
				if same && n > 0 {
					out := make([]value, n)
					for k := 0; k < n; k++ {
						k := k
						out[k] = fdMap(fd, func(r string) string { return strings.Split(r, sep)[k] })
					}
					return out
				}
				return toValues(strings.Split(fr.i.fdConc(fd), sep))
			}
		}
		if sep, ok := a[1].(string); ok && len(sep) == 1 {
			return fr.i.symSplitByte(a[0], sep[0])
		}
		return toValues(strings.Split(fr.i.concString(a[0]), fr.i.concString(a[1])))
	}
	stringFuncs["strings.SplitN"] = func(fr *frame, a []value) value {
		return toValues(strings.SplitN(fr.i.concString(a[0]), fr.i.concString(a[1]), int(fr.i.concInt(a[2]))))
	}
	stringFuncs["strings.Fields"] = func(fr *frame, a []value) value {
		if s, ok := a[0].(string); ok {
			return toValues(strings.Fields(s))
		}
		return fr.i.symFields(a[0])
	}

	stringFuncs["strconv.Itoa"] = func(fr *frame, a []value) value {
		return strconv.Itoa(int(fr.i.concInt(a[0])))
	}
	stringFuncs["strconv.Quote"] = func(fr *frame, a []value) value {
		return strconv.Quote(fr.i.concString(a[0]))
	}
	stringFuncs["strconv.FormatInt"] = func(fr *frame, a []value) value {
		return strconv.FormatInt(fr.i.concInt(a[0]), int(fr.i.concInt(a[1])))
	}
	stringFuncs["strconv.FormatFloat"] = func(fr *frame, a []value) value {
		return strconv.FormatFloat(a[0].(float64), a[1].(byte), a[2].(int), a[3].(int))
	}
}

func nil2(what string) value {
	panic(pathAbort{"unsupported", what})
}

// symCase maps ASCII letters; a byte >= 0x80 falls back to concretisation.
func (i *interpreter) symCase(v value, upper bool) value {
	b := i.strBytes(v)
	ts := i.ts
	out := make([]value, len(b))
	conc := func() value {
		s := i.concString(v)
		if upper {
			return strings.ToUpper(s)
		}
		return strings.ToLower(s)
	}
	for k, e := range b {
		if c, ok := e.(uint8); ok {
			if c >= 0x80 {
				return conc()
			}
			if upper && c >= 'a' && c <= 'z' {
				c -= 32
			} else if !upper && c >= 'A' && c <= 'Z' {
				c += 32
			}
			out[k] = c
			continue
		}
		t := e.(sym).t
		if i.branch(ts.Cmp(OpUle, ts.Const(8, 0x80), t)) {
			return conc()
		}
		var lo, hi uint64 = 'A', 'Z'
		var delta uint64 = 32
		if upper {
			lo, hi = 'a', 'z'
			delta = uint64(0x100 - 32)
		}
		isL := ts.And(ts.Cmp(OpUle, ts.Const(8, lo), t), ts.Cmp(OpUle, t, ts.Const(8, hi)))
		out[k] = lower(types.Uint8, ts.Ite(isL, ts.Bin(OpAdd, t, ts.Const(8, delta)), t))
	}
	return mkStr(out)
}

func (i *interpreter) isASCIISpaceTerm(e value) value {
	if c, ok := e.(uint8); ok {
		return c == ' ' || c == '\t' || c == '\n' || c == '\r' || c == '\v' || c == '\f'
	}
	t := e.(sym).t
	ts := i.ts
	acc := ts.Bool(false)
	for _, c := range []uint64{' ', '\t', '\n', '\r', '\v', '\f'} {
		acc = ts.Or(acc, ts.Cmp(OpEq, t, ts.Const(8, c)))
	}
	return lower(types.Bool, acc)
}

// asciiOnly reports whether every byte is < 0x80, forking on symbolic bytes.
func (i *interpreter) asciiOnly(b []value) bool {
	for _, e := range b {
		if c, ok := e.(uint8); ok {
			if c >= 0x80 {
				return false
			}
		} else if i.branch(i.ts.Cmp(OpUle, i.ts.Const(8, 0x80), e.(sym).t)) {
			return false
		}
	}
	return true
}

func (i *interpreter) symTrimSpace(v value) value {
	b := i.strBytes(v)
	if !i.asciiOnly(b) {
		return strings.TrimSpace(i.concString(v))
	}
	lo, hi := 0, len(b)
	for lo < hi && i.truth(i.isASCIISpaceTerm(b[lo])) {
		lo++
	}
	for hi > lo && i.truth(i.isASCIISpaceTerm(b[hi-1])) {
		hi--
	}
	return mkStr(b[lo:hi])
}

func (i *interpreter) symTrimSet(v value, cutset string, left, right bool) value {
	b := i.strBytes(v)
	for k := 0; k < len(cutset); k++ {
		if cutset[k] >= 0x80 {
			return nil2("Trim with non-ASCII cutset on symbolic string")
		}
	}
	in := func(e value) bool {
		if c, ok := e.(uint8); ok {
			return strings.IndexByte(cutset, c) >= 0
		}
		t := e.(sym).t
		acc := i.ts.Bool(false)
		for k := 0; k < len(cutset); k++ {
			acc = i.ts.Or(acc, i.ts.Cmp(OpEq, t, i.ts.Const(8, uint64(cutset[k]))))
		}
		return i.branch(acc)
	}
	lo, hi := 0, len(b)
	if left {
		for lo < hi && in(b[lo]) {
			lo++
		}
	}
	if right {
		for hi > lo && in(b[hi-1]) {
			hi--
		}
	}
	return mkStr(b[lo:hi])
}

func (i *interpreter) symEqualFold(a, b value) value {
	ba, bb := i.strBytes(a), i.strBytes(b)
	if !i.asciiOnly(ba) || !i.asciiOnly(bb) {
		return strings.EqualFold(i.concString(a), i.concString(b))
	}
	if len(ba) != len(bb) {
		return false
	}
	return i.strEq(i.symCase(a, false), i.symCase(b, false))
}

func (i *interpreter) symHasPrefix(a, p value) value {
	ba, bp := i.strBytes(a), i.strBytes(p)
	if len(bp) > len(ba) {
		return false
	}
	return i.strEq(mkStr(ba[:len(bp)]), mkStr(bp))
}

func (i *interpreter) symHasSuffix(a, p value) value {
	ba, bp := i.strBytes(a), i.strBytes(p)
	if len(bp) > len(ba) {
		return false
	}
	return i.strEq(mkStr(ba[len(ba)-len(bp):]), mkStr(bp))
}

func (i *interpreter) symContains(a, p value) value {
	ba, bp := i.strBytes(a), i.strBytes(p)
	if len(bp) > len(ba) {
		return false
	}
	var acc value = false
	for k := 0; k+len(bp) <= len(ba); k++ {
		acc = i.orV(acc, i.strEq(mkStr(ba[k:k+len(bp)]), mkStr(bp)))
	}
	return acc
}

func (i *interpreter) symIndex(a, p value) value {
	ba, bp := i.strBytes(a), i.strBytes(p)
	for k := 0; k+len(bp) <= len(ba); k++ {
		if i.truth(i.strEq(mkStr(ba[k:k+len(bp)]), mkStr(bp))) {
			return k
		}
	}
	return -1
}

func (i *interpreter) symIndexByte(b []value, c value) value {
	for k, e := range b {
		if i.truth(i.equalsV(nil, e, c)) {
			return k
		}
	}
	return -1
}

func (i *interpreter) symSplitByte(v value, sep byte) value {
	b := i.strBytes(v)
	var out []value
	start := 0
	for k, e := range b {
		if i.truth(i.equalsV(nil, e, sep)) {
			out = append(out, mkStr(b[start:k]))
			start = k + 1
		}
	}
	out = append(out, mkStr(b[start:]))
	return out
}

func (i *interpreter) symFields(v value) value {
	b := i.strBytes(v)
	if !i.asciiOnly(b) {
		return toValues(strings.Fields(i.concString(v)))
	}
	var out []value
	start := -1
	for k, e := range b {
		if i.truth(i.isASCIISpaceTerm(e)) {
			if start >= 0 {
				out = append(out, mkStr(b[start:k]))
				start = -1
			}
		} else if start < 0 {
			start = k
		}
	}
	if start >= 0 {
		out = append(out, mkStr(b[start:]))
	}
	return out
}

// ---------------------------------------------------------------------------
// unicode predicates: real tables on concrete runes; on symbolic runes the real
// Latin-1 behaviour as ranges, plus a fixed representative set above U+00FF
// (stated bound: other code points above U+00FF are outside the claim).

var unicodeReps = []rune{0x0101, 0x540D, 0x0663, 0x0301, 0x0903, 0x203F, 0x2003, 0x2018, 0x2019, 0x201C, 0x201D, 0x20AC, 0x1F600, 0xFFFD}

var unicodeFuncs = map[string]externalFn{}

func init() {
	pred := func(name string, f func(rune) bool) {
		unicodeFuncs[name] = func(fr *frame, a []value) value {
			if r, ok := a[0].(int32); ok {
				return f(r)
			}
			return fr.i.symRunePred(a[0].(sym), f)
		}
	}
	pred("IsLetter", unicode.IsLetter)
	pred("IsDigit", unicode.IsDigit)
	pred("IsNumber", unicode.IsNumber)
	pred("IsSpace", unicode.IsSpace)
	pred("IsUpper", unicode.IsUpper)
	pred("IsLower", unicode.IsLower)
	pred("IsPunct", unicode.IsPunct)
	pred("IsControl", unicode.IsControl)
	pred("IsPrint", unicode.IsPrint)
	pred("IsGraphic", unicode.IsGraphic)
	pred("IsSymbol", unicode.IsSymbol)
	pred("IsMark", unicode.IsMark)
	pred("IsTitle", unicode.IsTitle)
	mapf := func(name string, f func(rune) rune) {
		unicodeFuncs[name] = func(fr *frame, a []value) value {
			if r, ok := a[0].(int32); ok {
				return f(r)
			}
			return fr.i.symRuneMap(a[0].(sym), f)
		}
	}
	mapf("ToUpper", unicode.ToUpper)
	mapf("ToLower", unicode.ToLower)
	mapf("ToTitle", unicode.ToTitle)
	unicodeFuncs["Is"] = func(fr *frame, a []value) value {
		tab := fr.i.nativeRangeTable(a[0])
		if r, ok := a[1].(int32); ok {
			return unicode.Is(tab, r)
		}
		return fr.i.symRunePred(a[1].(sym), func(r rune) bool { return unicode.Is(tab, r) })
	}
	unicodeFuncs["In"] = func(fr *frame, a []value) value {
		var tabs []*unicode.RangeTable
		for _, t := range a[1].([]value) {
			tabs = append(tabs, fr.i.nativeRangeTable(t))
		}
		if r, ok := a[0].(int32); ok {
			return unicode.In(r, tabs...)
		}
		return fr.i.symRunePred(a[0].(sym), func(r rune) bool { return unicode.In(r, tabs...) })
	}
}

// nativeRangeTable maps a pointer to an interpreted unicode.RangeTable global to
// the host's table of the same name.
func (i *interpreter) nativeRangeTable(v value) *unicode.RangeTable {
	p := v.(*value)
	if i.rangeTables == nil {
		i.rangeTables = map[*value]*unicode.RangeTable{}
		upkg := i.prog.ImportedPackage("unicode")
		if upkg != nil {
			for name, m := range upkg.Members {
				g, ok := m.(*ssa.Global)
				if !ok {
					continue
				}
				t := hostRangeTable(name)
				if t == nil {
					continue
				}
				cell := i.global(g)
				if pp, ok := (*cell).(*value); ok && pp != nil {
					i.rangeTables[pp] = t
				}
			}
		}
	}
	if t, ok := i.rangeTables[p]; ok {
		return t
	}
	panic(pathAbort{"unsupported", "unknown unicode.RangeTable"})
}

func hostRangeTable(name string) *unicode.RangeTable {
	if t, ok := unicode.Categories[name]; ok {
		return t
	}
	if t, ok := unicode.Scripts[name]; ok {
		return t
	}
	if t, ok := unicode.Properties[name]; ok {
		return t
	}
	switch name {
	case "Letter":
		return unicode.Letter
	case "Digit":
		return unicode.Digit
	case "Mark":
		return unicode.Mark
	case "Number":
		return unicode.Number
	case "Punct":
		return unicode.Punct
	case "Space":
		return unicode.Space
	case "Symbol":
		return unicode.Symbol
	case "Upper":
		return unicode.Upper
	case "Lower":
		return unicode.Lower
	case "Title":
		return unicode.Title
	case "Other":
		return unicode.Other
	}
	return nil
}

// restrictRune adds the stated Unicode bound for a symbolic rune to the path.
func (i *interpreter) restrictRune(r sym) {
	ts := i.ts
	t := r.t
	acc := ts.Cmp(OpUle, t, ts.Const(32, 0xFF))
	for _, s := range unicodeReps {
		acc = ts.Or(acc, ts.Cmp(OpEq, t, ts.Const(32, uint64(s))))
	}
	i.assume(lower(types.Bool, acc))
}

func (i *interpreter) symRunePred(r sym, f func(rune) bool) value {
	if kindWidth(r.k) != 32 {
		r = i.symConvInt(types.Int32, r).(sym)
	}
	i.restrictRune(r)
	ts := i.ts
	acc := ts.Bool(false)
	start := -1
	for c := 0; c <= 0x100; c++ {
		in := c <= 0xFF && f(rune(c))
		if in && start < 0 {
			start = c
		}
		if !in && start >= 0 {
			lo, hi := uint64(start), uint64(c-1)
			if lo == hi {
				acc = ts.Or(acc, ts.Cmp(OpEq, r.t, ts.Const(32, lo)))
			} else {
				acc = ts.Or(acc, ts.And(ts.Cmp(OpUle, ts.Const(32, lo), r.t), ts.Cmp(OpUle, r.t, ts.Const(32, hi))))
			}
			start = -1
		}
	}
	for _, s := range unicodeReps {
		if f(s) {
			acc = ts.Or(acc, ts.Cmp(OpEq, r.t, ts.Const(32, uint64(s))))
		}
	}
	return lower(types.Bool, acc)
}

func (i *interpreter) symRuneMap(r sym, f func(rune) rune) value {
	if kindWidth(r.k) != 32 {
		r = i.symConvInt(types.Int32, r).(sym)
	}
	i.restrictRune(r)
	ts := i.ts
	acc := r.t
	for c := 0; c <= 0xFF; c++ {
		if m := f(rune(c)); m != rune(c) {
			acc = ts.Ite(ts.Cmp(OpEq, r.t, ts.Const(32, uint64(c))), ts.Const(32, uint64(uint32(m))), acc)
		}
	}
	for _, s := range unicodeReps {
		if m := f(s); m != s {
			acc = ts.Ite(ts.Cmp(OpEq, r.t, ts.Const(32, uint64(s))), ts.Const(32, uint64(uint32(m))), acc)
		}
	}
	return lower(types.Int32, acc)
}
