package gosx

// regexp: compiled natively, matched natively on concrete subjects only.
// A symbolic subject is concretised (forks over byte values) — callers that
// need symbolic text must keep it away from regexes (stated in DESIGN.md).

import (
	"fmt"
	"regexp"
)

type nativeObj struct{ v interface{} }

func (i *interpreter) regexpOf(v value) *regexp.Regexp {
	p, ok := v.(*value)
	if !ok || p == nil {
		panic(targetPanic{i.runtimeError("invalid memory address or nil pointer dereference (nil *regexp.Regexp)")})
	}
	n, ok := (*p).(nativeObj)
	if !ok {
		panic(pathAbort{"unsupported", "regexp value not created by an intrinsic"})
	}
	return n.v.(*regexp.Regexp)
}

func newRegexpValue(re *regexp.Regexp) value {
	var cell value = nativeObj{re}
	return &cell
}

func intPairs(xs [][]int) []value {
	if xs == nil {
		return nil
	}
	out := make([]value, len(xs))
	for k, x := range xs {
		out[k] = ints(x)
	}
	return out
}

func ints(x []int) value {
	if x == nil {
		return []value(nil)
	}
	o := make([]value, len(x))
	for j, v := range x {
		o[j] = v
	}
	return o
}

func init() {
	reg := func(name string, f externalFn) { regexpFuncs[name] = f }
	reg("regexp.MustCompile", func(fr *frame, a []value) value {
		s := fr.i.concString(a[0])
		re, err := regexp.Compile(s)
		if err != nil {
			panic(targetPanic{iface{t: fr.i.runtimeErrorString, v: "regexp: Compile(" + s + "): " + err.Error()}})
		}
		return newRegexpValue(re)
	})
	reg("regexp.Compile", func(fr *frame, a []value) value {
		s := fr.i.concString(a[0])
		re, err := regexp.Compile(s)
		if err != nil {
			return tuple{(*value)(nil), fr.i.errorValue(err.Error())}
		}
		return tuple{newRegexpValue(re), iface{}}
	})
	reg("regexp.QuoteMeta", func(fr *frame, a []value) value { return regexp.QuoteMeta(fr.i.concString(a[0])) })
	reg("regexp.MatchString", func(fr *frame, a []value) value {
		ok, err := regexp.MatchString(fr.i.concString(a[0]), fr.i.concString(a[1]))
		if err != nil {
			return tuple{false, fr.i.errorValue(err.Error())}
		}
		return tuple{ok, iface{}}
	})
	m := func(name string, f func(i *interpreter, re *regexp.Regexp, a []value) value) {
		reg("(*regexp.Regexp)."+name, func(fr *frame, a []value) value {
			return f(fr.i, fr.i.regexpOf(a[0]), a[1:])
		})
	}
	m("MatchString", func(i *interpreter, re *regexp.Regexp, a []value) value { return re.MatchString(i.concString(a[0])) })
	m("Match", func(i *interpreter, re *regexp.Regexp, a []value) value {
		return re.MatchString(i.concString(mkStr(a[0].([]value))))
	})
	m("String", func(i *interpreter, re *regexp.Regexp, a []value) value { return re.String() })
	m("FindString", func(i *interpreter, re *regexp.Regexp, a []value) value { return re.FindString(i.concString(a[0])) })
	m("FindStringIndex", func(i *interpreter, re *regexp.Regexp, a []value) value {
		return ints(re.FindStringIndex(i.concString(a[0])))
	})
	m("FindAllString", func(i *interpreter, re *regexp.Regexp, a []value) value {
		return toValues(re.FindAllString(i.concString(a[0]), int(i.concInt(a[1]))))
	})
	m("FindAllStringIndex", func(i *interpreter, re *regexp.Regexp, a []value) value {
		return intPairs(re.FindAllStringIndex(i.concString(a[0]), int(i.concInt(a[1]))))
	})
	m("FindStringSubmatch", func(i *interpreter, re *regexp.Regexp, a []value) value {
		return toValues(re.FindStringSubmatch(i.concString(a[0])))
	})
	m("FindStringSubmatchIndex", func(i *interpreter, re *regexp.Regexp, a []value) value {
		return ints(re.FindStringSubmatchIndex(i.concString(a[0])))
	})
	m("FindAllStringSubmatch", func(i *interpreter, re *regexp.Regexp, a []value) value {
		r := re.FindAllStringSubmatch(i.concString(a[0]), int(i.concInt(a[1])))
		if r == nil {
			return []value(nil)
		}
		out := make([]value, len(r))
		for k, x := range r {
			out[k] = toValues(x)
		}
		return out
	})
	m("FindAllStringSubmatchIndex", func(i *interpreter, re *regexp.Regexp, a []value) value {
		return intPairs(re.FindAllStringSubmatchIndex(i.concString(a[0]), int(i.concInt(a[1]))))
	})
	m("ReplaceAllString", func(i *interpreter, re *regexp.Regexp, a []value) value {
		return re.ReplaceAllString(i.concString(a[0]), i.concString(a[1]))
	})
	m("ReplaceAllLiteralString", func(i *interpreter, re *regexp.Regexp, a []value) value {
		return re.ReplaceAllLiteralString(i.concString(a[0]), i.concString(a[1]))
	})
	m("Split", func(i *interpreter, re *regexp.Regexp, a []value) value {
		return toValues(re.Split(i.concString(a[0]), int(i.concInt(a[1]))))
	})
	m("NumSubexp", func(i *interpreter, re *regexp.Regexp, a []value) value { return re.NumSubexp() })
	reg("(*regexp.Regexp).ReplaceAllStringFunc", func(fr *frame, a []value) value {
		i := fr.i
		re := i.regexpOf(a[0])
		return re.ReplaceAllStringFunc(i.concString(a[1]), func(s string) string {
			return i.concString(call(i, fr, 0, a[2], []value{s}))
		})
	})
}

var regexpFuncs = map[string]externalFn{}

// errorValue builds an *errors.errorString.
func (i *interpreter) errorValue(msg string) value {
	ep := i.prog.ImportedPackage("errors")
	if ep == nil {
		panic(pathAbort{"unsupported", "errors package not loaded"})
	}
	t := ep.Type("errorString").Type()
	var cell value = structure{msg}
	return iface{t: typesNewPointer(t), v: &cell}
}

var _ = fmt.Sprint
