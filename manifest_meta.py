# Per-property text for MANIFEST.json.
META = {
    "C04": {"ref": "DESIGN.md §8 C04",
            "text": "Every byte string within the stated bounds is executed symbolically through the real Tokenize; the solver decides every branch and discharges 'same kinds/values/comments as the reference lexer', 'exactly one EOF, last', and accept/reject agreement. unsat = holds for every input of the path class; sat = concrete input, replayed natively before it is reported.",
            "note": "Bounded: input length and alphabets as in evidence.coverage.bounds; the reference lexer is trusted as the statement of the lexical grammar; engine intrinsics (fmt, sync, unicode tables) are trusted and cross-validated by native replay of sampled paths."},
    "C05": {"ref": "DESIGN.md §8 C05",
            "text": "Same symbolic runs as C04; the assertions compare every token's and comment's reported start/end with positions computed from the reference lexer's byte offsets (exact for tab-free ASCII), plus 1-based / ordered / contained for all accepted inputs.",
            "note": "Bounded input length; exact columns only for tab-free ASCII; parser error locations covered by the parser harnesses."},
    "C01": {"ref": "DESIGN.md §8 C01",
            "text": "Totality is decided per path by the solver: no panic escapes the entry point (runtime panics are implicit assertions: index, nil, type assertion, slice bounds, division, negative make), and every path stays inside an instruction / call-depth budget (unwinding assertion). Inputs: symbolic byte strings into the real tokenizer; symbolic token sequences (finite-domain selectors over a lexeme table, including rows no tokenizer can produce, EOF presence symbolic, strict x dialect symbolic) into the real low-level parser, with accepted trees serialised.",
            "note": "Bounded by input length / token count (evidence.coverage.bounds). A budget overrun is replayed natively under a timeout and only then reported (hang or fatal stack overflow)."},
    "C02": {"ref": "DESIGN.md §8 C02",
            "text": "Four solver-decided obligations: (A) recursion accounting as an inductive argument — an engine-side monitor asserts, for every *Parser method re-entered while an activation of it is live, that p.depth strictly increased (start depth and token continuation symbolic), so every cycle reachable within the bound pays into the depth counter; (B) the depth limit is exact for every current depth 0..200 (symbolic); (C) the byte limit is exact for every input length 0..32 MiB (symbolic length, content never read; boundary 10 MiB decided by the solver); (D) the token limit is exact on the source instantiated at MaxTokens=2.",
            "note": "A is bounded by continuation length and the listed contexts; its violations are engine-side (no native observable for 're-entered without accounting'), all other counterexamples are replayed natively (10 MiB+1 inputs, instantiated source). D relies on the stated data-independence of the constant."},
    "C03": {"ref": "DESIGN.md §8 C03",
            "text": "Differential symbolic execution: the real parser and a reference precedence-climbing parser (written from the documented ladder) run on the same symbolic token window; for every path on which the reference accepts, the solver discharges 'real accepts' and node-by-node equality of the trees (operators, operands, NOT flags, IN lists, BETWEEN bounds). Clause templates with symbolic presence bits, names and numbers assert that every written clause/modifier/value is in the tree and nothing unwritten is; set-operation chains assert left-associativity and per-operator ALL flags.",
            "note": "Bounded by window length and the template family; the reference parser is the trusted statement of the grammar."},
    "C07": {"ref": "DESIGN.md §8 C07",
            "text": "Differential symbolic execution of the four statement loops (Parse, ParseContext, ParseWithPositions, recovery) on the same symbolic token stream: the solver discharges equal verdicts, structurally equal trees and equal error codes on every path. The convenience wrappers and the batch calls are executed through the whole real pipeline on a table of texts with symbolic batch composition.",
            "note": "Token-level claim bounded by stream length; wrapper-level claim is over a finite table of texts (composition symbolic)."},
    "C08": {"ref": "DESIGN.md §8 C08",
            "text": "Inductive step instead of history enumeration: the pre-state of the reused parser is symbolic (arbitrary tokens, cursor, current token, position mapping, configuration) constrained only by an invariant that a first harness proves every entry point re-establishes; from every such state the probe's outcome must equal a fresh instance's (verdict, error code, error location, tree). Pool hand-off / Reset are compared field by field with a new parser.",
            "note": "The invariant (depth=0, ctx=nil) is part of the claim; bounded probe length."},
    "C09": {"ref": "DESIGN.md §8 C09",
            "text": "Cleanliness per pooled type and field: harnesses are generated from pool.go on every run; the released node's content is symbolic (type-directed fill), the pool model hands the very node back, and the solver discharges structural equality with a freshly constructed node. Aliasing: an engine-side write monitor freezes every cell reachable from values the caller holds; any later write by the library (another parse, a release of another tree, a pooled tokenizer) is the violation; histories are symbolic choices.",
            "note": "Native confirmation replays the same history and compares deep snapshots of the held values. Pool model: LIFO."},
    "C14": {"ref": "DESIGN.md §8 C14",
            "text": "Per (node type, field): harnesses generated from the current source populate one field at a time with fresh probe nodes (symbolic choice of type and field, type-directed fill) and assert that every node pointer reachable through the tree's own fields is visited by ast.Inspect. Also: left-deep chains of symbolic height, and every tree the parser accepts in the token-soup runs (reachable set = visited set).",
            "note": "Core AST types only; bounded fill depth; identity-based (pointer nodes)."},
    "C11": {"ref": "DESIGN.md §8 C11",
            "text": "The moment of cancellation is a symbolic variable: a counting context turns done at poll k (k and the error kind symbolic). On every path the solver discharges: no tree, errors.Is(err, ctx.Err()) through the real wrap chain, at most 2 further polls, the uncancelled run equals the context-free run, and the parser is left without residue (ctx nil, depth restored).",
            "note": "Inputs: fixed nested statements that put every wrapping site on some path, plus short symbolic continuations."},
    "C12": {"ref": "DESIGN.md §8 C12",
            "text": "Recovery parsing on symbolic token soup (termination as an unwinding assertion; errors iff strict parsing fails) and on scripts of statements under symbolic corruptions (kind, position and replacement token symbolic): one error per malformed statement, no well-formed statement lost or reordered, each error names a token of its own statement.",
            "note": "Bounded soup length / script length; the oracle for 'well-formed' is strict parsing of the statement alone."},
    "C13": {"ref": "DESIGN.md §8 C13",
            "text": "On every error-returning path of the C01 runs the solver discharges: errors.As reaches *errors.Error (the real Unwrap chains are executed), the code belongs to the right family (E1xxx from Tokenize, E2xxx from the parser), the message is non-empty and a set location lies within the input.",
            "note": "Same bounds as C01; message wording and hints are executed but not asserted on."},
}
_PENDING = "no check registered yet in this round (harness under construction; see DESIGN.md section 8)"
NOT_APPLICABLE = [{"property_id": "C%02d" % k, "reason": _PENDING} for k in range(1, 21) if "C%02d" % k not in META]
for n in NOT_APPLICABLE:
    if n["property_id"] == "C20":
        n["reason"] = "a growth-rate claim up to 10 MiB cannot be expressed within any bound a path-wise SMT encoding reaches (n log n vs n^2 is indistinguishable at <= 8 symbolic bytes); see DESIGN.md section 8 C20"
