# Check configuration: which harnesses decide which property, with the bounds per tier.
TOK = "pkg/sql/tokenizer"

def tokruns(prefix_asserts, quick, thorough):
    runs = []
    for h in quick:
        runs.append({"pkg": TOK, "harness": h, "tiers": ["quick"], "expect_asserts": prefix_asserts})
    for h in thorough:
        runs.append({"pkg": TOK, "harness": h, "tiers": ["thorough"], "expect_asserts": prefix_asserts, "thorough": {"timeout": 7200}})
    return runs

CHECKS = {
    "C04": {
        "bounds": {"quick": "all byte strings of length <= 2 over all 256 byte values; length <= 3 over the 24-symbol lexical alphabet; length <= 5 over the comment alphabet {- / * \\n a space}",
                   "thorough": "length <= 3 over all byte values; length <= 4 over the lexical alphabet; length <= 7 over the comment alphabet"},
        "outside": "longer inputs; code points above U+00FF other than the representative set of DESIGN.md 5.3; compound keywords and keywords of 5+ letters in the byte harnesses",
        "assumptions": ["reference lexer (harness/pkg/sql/tokenizer/reflex.go) is the oracle for the core lexical grammar; it answers don't-know elsewhere",
                        "unicode predicates on symbolic runes above U+00FF are restricted to a representative set (stated bound)",
                        "time.Now/metrics are stubs; sync.Pool is a LIFO stack"],
        "runs": tokruns(["C04.eof_last", "C04.kind", "C04.value"], ["VxC04_All2", "VxC04_Lex3", "VxC04_Cmt5"], ["VxC04_All3", "VxC04_Lex4", "VxC04_Cmt7"]),
    },
    "C05": {
        "bounds": {"quick": "token/comment positions for all byte strings of length <= 2 (all bytes), <= 3 (lexical alphabet), <= 5 (comment alphabet), <= 4 (position alphabet {a 1 ' - / * space tab \\n \\r})",
                   "thorough": "length <= 3 all bytes; <= 4 lexical; <= 7 comment; <= 5 position alphabet"},
        "outside": "exact columns are asserted for tab-free ASCII input only (tabs/multi-byte: ordering and containment only); parser error locations are judged by the parser harness",
        "assumptions": ["expected positions are computed from the reference lexer's byte offsets"],
        "runs": tokruns(["C05.start", "C05.end", "C05.one_based"], ["VxC04_All2", "VxC04_Lex3", "VxC04_Cmt5", "VxC04_Pos4"], ["VxC04_All3", "VxC04_Lex4", "VxC04_Cmt7", "VxC04_Pos5"]),
    },
}
