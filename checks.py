# Check configuration: which harnesses decide which property, with the bounds per tier.
TOK = "pkg/sql/tokenizer"

def tokruns(prefix_asserts, quick, thorough, generic=None):
    runs = []
    for h in quick:
        runs.append({"pkg": TOK, "harness": h, "tiers": ["quick"], "expect_asserts": prefix_asserts})
    for h in thorough:
        runs.append({"pkg": TOK, "harness": h, "tiers": ["thorough"], "expect_asserts": prefix_asserts, "thorough": {"timeout": 7200}})
    if generic:
        for r in runs:
            r["generic"] = generic
            r["budget_is_violation"] = "unwind" in generic
    return runs

PAR = "pkg/sql/parser"

def parruns(harnesses_q, harnesses_t, asserts, generic=None, extra=None):
    runs = []
    for tier, hs in (("quick", harnesses_q), ("thorough", harnesses_t)):
        for h in hs:
            r = {"pkg": PAR, "harness": h, "tiers": [tier], "expect_asserts": asserts, "args": {"max-steps": 400000}, "thorough": {"timeout": 7200}}
            if generic:
                r["generic"] = generic
                r["budget_is_violation"] = "unwind" in generic
            else:
                r["budget_judged_by"] = "C01"  # non-terminating paths are C01's verdict, not this property's
            if extra:
                r.update(extra)
            runs.append(r)
    return runs

_OS_SUBS = [[r"\bos\.ReadFile\(", "vxReadFile("], [r"\bos\.WriteFile\(", "vxWriteFile("], [r"\bos\.Stat\(", "vxStat("],
            [r"\bos\.CreateTemp\(", "vxCreateTemp("], [r"\bos\.Rename\(", "vxRename("], [r"\bos\.Remove\(", "vxRemove("]]
C19_INST = {"files": [
    {"file": "cmd/gosqlx/cmd/formatter.go", "subs": _OS_SUBS + [[r"\bexpandFileArgs\(args\)", "vxExpand(args)"], [r"\bValidateFileAccess\(filename\)", "vxAccess(filename)"]]},
    {"file": "cmd/gosqlx/cmd/atomic_write.go", "subs": _OS_SUBS},
    {"file": "cmd/gosqlx/cmd/lint.go", "subs": _OS_SUBS + [[r"\bShouldReadFromStdin\(args\)", "vxNoStdin(args)"], [r"\bl\.LintFiles\(args\)", "vxLintFiles(l, args)"]]},
    {"file": "cmd/gosqlx/cmd/validator.go", "subs": _OS_SUBS + [[r"\bv\.expandFileArgs\(args\)", "vxExpand(args)"], [r"\bDetectAndReadInput\(filename\)", "vxDetect(filename)"]]},
]}

CHECKS = {
    "C01": {
        "bounds": {"quick": "tokenizer: all byte strings <= 2 bytes (all values), <= 3 (lexical alphabet), <= 5 (comment alphabet); low-level parser: every token sequence of <= 2 symbolic tokens drawn from a 150-row lexeme table (statement/clause keywords, operators, literals, and rows no tokenizer produces: type-less, empty literal, mismatched literal, unknown type) at statement start and after SELECT / SELECT a FROM / SELECT a FROM t WHERE, with and without a trailing EOF, strict x dialect symbolic; truncations: every prefix (cut at every token) of a 47-statement corpus covering each parser production (MATCH..AGAINST, CASE/CAST, window frames, ROLLUP/CUBE/GROUPING SETS, FETCH/FOR UPDATE, JSON/array operators, joins, sub-query predicates, SUBSTRING/EXTRACT/POSITION, recursive CTE, set operations, INSERT..ON CONFLICT/ON DUPLICATE KEY, REPLACE, UPDATE, DELETE, MERGE, CREATE TABLE/INDEX/VIEW/MATERIALIZED VIEW, REFRESH, ALTER TABLE/ROLE/POLICY, DROP, TRUNCATE, SHOW, DESCRIBE, TOP, DISTINCT ON/WINDOW, WITHIN GROUP, casts and tuples), with and without EOF, dialect symbolic; accepted trees are serialised with AST.SQL; linting: linter.LintString with the CLI's ten default rules plus every fixable rule's Fix on every text of <= 3 words from a 20-word table (clause keywords, names, punctuation, comment, newline), alone and after SELECT a FROM t; size sweep: gosqlx.Parse / Validate / Format / ParseWithRecovery / ExtractMetadata on statements whose one variable-size element (identifier, back-quoted and double-quoted identifier, string, number, comments, table name with alias: 0..130 characters; parenthesis nest and select list: 0..39) has a symbolic size",
                   "thorough": "linting <= 4 words; tokenizer <= 3 bytes all values / <= 4 lexical / <= 7 comment; parser <= 3 symbolic tokens in each context; every truncation continued by one symbolic token"},
        "outside": "inputs longer than the bounds; formatting / extraction / scanning entry points (covered at kernel strength by C06, C14-C16); the Go runtime; regex paths on symbolic text",
        "assumptions": ["termination = every path stays inside the instruction and call-depth budget (unwinding assertion); exceeding it is reported as a candidate hang and replayed natively under a timeout"],
        "runs": tokruns([], ["VxC04_All2", "VxC04_Lex3", "VxC04_Cmt5"], ["VxC04_All3", "VxC04_Lex4", "VxC04_Cmt7"], generic=["panic", "unwind"]) + parruns(["VxSoup_Start2", "VxSoup_Select2", "VxSoup_From2", "VxSoup_Where2", "VxSoup_Cut0"], ["VxSoup_Start3", "VxSoup_Select3", "VxSoup_From3", "VxSoup_Where3", "VxSoup_Cut1"], ["C01.value_or_error"], generic=["panic", "unwind"]) + [
            {"pkg": "cmd/gosqlx/cmd", "harness": h, "tiers": [t], "expect_asserts": ["C01.lint_returns"], "generic": ["panic", "unwind"], "budget_is_violation": True, "thorough": {"timeout": 7200}}
            for h, t in (("VxC01_Lint3", "quick"), ("VxC01_LintFrom3", "quick"), ("VxC01_Lint4", "thorough"), ("VxC01_LintFrom4", "thorough"))] + [
            {"pkg": "pkg/gosqlx", "harness": "VxC01_Sizes", "args": {"replace": "context.WithTimeout=VxTimeoutCtx"}, "expect_asserts": ["C01.size_returns"], "generic": ["panic", "unwind"], "budget_is_violation": True}],
    },
    "C02": {
        "bounds": {"quick": "byte limit: every input length 0..32 MiB (symbolic 32-bit length, content never read) for Tokenize and TokenizeContext; token limit: source instantiated at MaxTokens=2, all inputs <= 5 bytes over {a space ,}; depth limit: every current depth 0..200 for parseExpression and parseCommonTableExpr; recursion accounting: every *Parser method re-entered while active must see a larger depth, for all <= 3-token continuations (150-row statement/expression lexeme table) of 5 contexts (statement start, SELECT, SELECT * FROM, SELECT * FROM t JOIN, SELECT a FROM t WHERE) and every start depth 0..89; every recursion cycle enforces the limit: from start depths 97..102 a *Parser method is re-entered while active only if the active activation was entered below 100, same contexts and continuations",
                   "thorough": "same, token limit <= 7 bytes, recursion accounting <= 4 tokens (the limit-on-every-cycle runs: <= 4 tokens at statement start, after SELECT * FROM and after JOIN, <= 3 tokens after SELECT and after WHERE, whose 4-token runs did not finish inside 7 minutes and are not registered)"},
        "outside": "cycles whose shortest re-entry needs more tokens than the bound from these contexts; goroutine stack bytes (activations are counted, not bytes); the real constant MaxTokens=1,000,000 is covered through the instantiation argument (the constant occurs only in the comparison with len(tokens) and in the error builder)",
        "assumptions": ["documented limits: 10 MiB input, 1,000,000 tokens, nesting depth 100", "p.depth is the accounting measure"],
        "runs": [
            {"pkg": TOK, "harness": "VxC02_ByteLimit", "args": {"replace": "(*github.com/ajitpratap0/GoSQLX/pkg/sql/tokenizer.Tokenizer).Reset=VxResetProbe"}, "expect_asserts": ["C02.bytes_reject", "C02.bytes_accepted_only_within_limit"], "validate": 0, "native_skips_replaced": True},
            {"pkg": TOK, "harness": "VxC02_ByteLimitCtx", "args": {"replace": "(*github.com/ajitpratap0/GoSQLX/pkg/sql/tokenizer.Tokenizer).Reset=VxResetProbe"}, "expect_asserts": ["C02.bytes_reject", "C02.bytes_accepted_only_within_limit"], "validate": 0},
            {"pkg": TOK, "harness": "VxC02_TokenLimit5", "tiers": ["quick"], "instantiate": {"file": "pkg/sql/tokenizer/tokenizer.go", "regex": r"(MaxTokens\s*=\s*)1000000", "repl": r"\g<1>2"}, "expect_asserts": ["C02.tokens_reject", "C02.tokens_accept"]},
            {"pkg": TOK, "harness": "VxC02_TokenLimitCtx5", "tiers": ["quick"], "instantiate": {"file": "pkg/sql/tokenizer/tokenizer.go", "regex": r"(MaxTokens\s*=\s*)1000000", "repl": r"\g<1>2"}, "expect_asserts": ["C02.tokens_reject", "C02.tokens_accept"]},
            {"pkg": TOK, "harness": "VxC02_TokenLimit7", "tiers": ["thorough"], "instantiate": {"file": "pkg/sql/tokenizer/tokenizer.go", "regex": r"(MaxTokens\s*=\s*)1000000", "repl": r"\g<1>2"}, "expect_asserts": ["C02.tokens_reject", "C02.tokens_accept"]},
            {"pkg": TOK, "harness": "VxC02_TokenLimitCtx7", "tiers": ["thorough"], "instantiate": {"file": "pkg/sql/tokenizer/tokenizer.go", "regex": r"(MaxTokens\s*=\s*)1000000", "repl": r"\g<1>2"}, "expect_asserts": ["C02.tokens_reject", "C02.tokens_accept"]},
            {"pkg": PAR, "harness": "VxC02_DepthLimit", "expect_asserts": ["C02.depth_reject", "C02.depth_accept"]},
            {"pkg": PAR, "harness": "VxC02_DepthLimitCTE", "expect_asserts": ["C02.cte_depth_reject", "C02.cte_depth_accept"]},
        ] + parruns(["VxC02_Reentry_Start3", "VxC02_Reentry_Select3", "VxC02_Reentry_From3", "VxC02_Reentry_Join3", "VxC02_Reentry_Where3"],
                    ["VxC02_Reentry_Start4", "VxC02_Reentry_Select4", "VxC02_Reentry_From4", "VxC02_Reentry_Join4", "VxC02_Reentry_Where4"], ["C02.reentry_accounted"], extra={"engine_only_asserts": ["C02.reentry_accounted"]})
          + parruns(["VxC02_Limited_Start3", "VxC02_Limited_Select3", "VxC02_Limited_From3", "VxC02_Limited_Join3", "VxC02_Limited_Where3"],
                    ["VxC02_Limited_Start4", "VxC02_Limited_Select3", "VxC02_Limited_From4", "VxC02_Limited_Join4", "VxC02_Limited_Where3"], ["C02.reentry_limited"], extra={"engine_only_asserts": ["C02.reentry_accounted", "C02.reentry_limited"]}),
    },
    "C03": {
        "bounds": {"quick": "WHERE-expressions of <= 4 symbolic tokens over a 30-row lexeme table (identifiers, literals, every operator of the documented ladder, parentheses, NOT/IS/NULL/IN/BETWEEN/LIKE/AND/OR) and <= 5 tokens over a 16-row operator table; SELECT with every combination of DISTINCT/WHERE/GROUP BY/HAVING/ORDER BY [DESC]/LIMIT/OFFSET with symbolic names and numbers; 12 longer expression shapes (NOT ( a ) ? b, a ? ( b ? c ) ? d, unary minus, double NOT, ...) with every operator slot symbolic over 10 operators; HAVING with and without GROUP BY; chains of <= 2 set operators (UNION/EXCEPT/INTERSECT, ALL symbolic) over 3 selects; join chains of <= 2 joins, each of 9 spellings (JOIN, INNER, LEFT [OUTER], RIGHT [OUTER], FULL [OUTER], CROSS) with symbolic table, optional alias, ON or USING: kind, table, alias and condition per join as written; INSERT with 0-2 listed columns and 1-3 rows of symbolic numbers: every row keeps its own values; UPDATE with 1-3 assignments and DELETE, WHERE symbolic",
                   "thorough": "<= 5 tokens (30-row table), <= 7 tokens (operator table); same clause templates; chains of <= 3 joins"},
        "outside": "expressions longer than the bound; unary minus, JSON operators, ::, CASE, functions, sub-queries inside the expression window (not in the documented ladder harness); joins, CTEs, windows, DML/DDL/MERGE clause structure",
        "assumptions": ["the reference precedence-climbing parser (harness/pkg/sql/parser/c03.go) states the documented ladder; when it rejects, nothing is asserted"],
        "runs": parruns(["VxC03_Expr4", "VxC03_Ops5", "VxC03_Clauses", "VxC03_SetOps", "VxC03_Joins2", "VxC03_Insert", "VxC03_UpdateDelete", "VxC03_Shapes"], ["VxC03_Shapes", "VxC03_Expr5", "VxC03_Ops7", "VxC03_Clauses", "VxC03_SetOps", "VxC03_Joins3", "VxC03_Insert", "VxC03_UpdateDelete"], []),
    },
    "C06": {
        "bounds": {"quick": "expression shapes: every accepted WHERE-expression of <= 4 symbolic tokens over the 16-row operator table and <= 3 tokens over the 30-row table: AST.SQL() -> real tokenizer -> real parser gives a structurally equal tree and the same text again; 23 statement templates (joins, USING, IS NOT NULL, NOT EXISTS, IN/BETWEEN/LIKE, explicit parentheses, GROUP/HAVING/ORDER/NULLS/LIMIT/OFFSET, window frame with offset, CTE, UNION ALL, CASE, CAST, DISTINCT, INSERT/UPDATE/DELETE, derived table, unary minus, FOR UPDATE) with symbolic two-letter identifiers, plain and double-quoted (all 676 spellings per name on one path; reserved words found by the solver); gosqlx.Format on 6 statements with symbolic options (indent 0..4, keyword case, semicolon, line limit): re-parse equality and idempotence",
                   "thorough": "<= 4 tokens over the 30-row table"},
        "outside": "pkg/formatter.Format and the CLI SQLFormatter (third serialiser); DDL / MERGE serialisation; expression windows longer than the bound; comments",
        "assumptions": ["tree equality is compared on canonical dumps, case-insensitively (keyword and operator words)"],
        "runs": [
            {"pkg": "pkg/gosqlx", "harness": "VxC06_Expr4", "args": {"replace": "context.WithTimeout=VxTimeoutCtx"}, "expect_asserts": ["C06.same_tree"]},
            {"pkg": "pkg/gosqlx", "harness": "VxC06_ExprFull3", "args": {"replace": "context.WithTimeout=VxTimeoutCtx"}},
            {"pkg": "pkg/gosqlx", "harness": "VxC06_Templates", "args": {"replace": "context.WithTimeout=VxTimeoutCtx"}, "expect_asserts": ["C06.t_same_tree"]},
            {"pkg": "pkg/gosqlx", "harness": "VxC06_Format", "args": {"replace": "context.WithTimeout=VxTimeoutCtx"}, "expect_asserts": ["C06.format_idempotent", "C06.format_same_tree"]},
            {"pkg": "pkg/gosqlx", "harness": "VxC06_ExprFull4", "tiers": ["thorough"], "args": {"replace": "context.WithTimeout=VxTimeoutCtx"}, "thorough": {"timeout": 7200}},
        ],
    },
    "C07": {
        "bounds": {"quick": "low-level entry points (Parse, ParseContext, ParseWithPositions, ParseWithRecovery) on every stream of <= 3 symbolic tokens (150-row table) at statement start, after SELECT, after SELECT a FROM t WHERE and after '; SELECT a FROM t ;', EOF-terminated, with at least one non-semicolon token; strict mode symbolic for <= 2 tokens; convenience layer: 11 SQL texts (valid, invalid, stray/leading semicolons, tokenizer failures, comments) through gosqlx.Parse/ParseBytes/ParseWithContext/ParseWithTimeout/Validate/ParseWithRecovery and parser.ParseBytes/Validate/ParseBytesWithTokens; every batch of <= 3 of those texts through ParseMultiple / ValidateMultiple",
                   "thorough": "<= 4 symbolic tokens in each context"},
        "outside": "streams longer than the bound; agreement of the convenience layer on texts outside the table (the layer only tokenizes and delegates; the delegation targets are covered symbolically)",
        "assumptions": ["context.WithTimeout is replaced by a never-firing context under the engine (no timers)"],
        "runs": parruns(["VxC07_Start3", "VxC07_Semi3", "VxC07_Strict2"], ["VxC07_Start4", "VxC07_Select4", "VxC07_Where4", "VxC07_Semi4", "VxC07_Strict2", "VxC07_Select3", "VxC07_Where3"], ["C07.same_verdict", "C07.same_tree"]) + [
            {"pkg": "pkg/gosqlx", "harness": "VxC07_Wrappers", "args": {"replace": "context.WithTimeout=VxTimeoutCtx"}, "expect_asserts": ["C07.wrap_verdict", "C07.wrap_tree"]},
            {"pkg": "pkg/gosqlx", "harness": "VxC07_Batch", "args": {"replace": "context.WithTimeout=VxTimeoutCtx"}, "expect_asserts": ["C07.batch_verdict", "C07.batch_tree"]},
        ],
    },
    "C08": {
        "bounds": {"quick": "inductive: (1) from any parser state satisfying I (depth=0, ctx=nil; tokens, cursor, current token, position mapping of length 0..2 arbitrary; strict/dialect symbolic) every entry point on every <= 3-token stream re-establishes I and keeps the configuration; (2) from any such state the outcome (verdict, error code, error location, tree) of every entry point on <= 3 tokens (statement start) / <= 2 tokens after SELECT equals a fresh instance's; (3) PutParser+GetParser / Reset give back an instance equal to a new one, Release clears per-parse state; (4) tokenizer instances: after tokenizing one of 5 earlier texts (multi-line, failing, with comments) - reused directly, after Reset, or through the pool - every input <= 3 bytes over {$ a \\n \" \\\\ ' space} gives the tokens, spans, comments and error (code, message, location) of a fresh instance; (5) the nesting counter is zero after Parse returns, for every truncation of the 47-statement corpus (sub-queries that start with WITH, nested derived tables, ...)",
                   "thorough": "(2) with <= 4 tokens"},
        "outside": "tokenizer histories longer than one earlier call; histories that break I through data races or through callers writing unexported fields",
        "assumptions": ["sync.Pool is modelled as a LIFO stack (a single-P process without GC)"],
        "runs": parruns(["VxC08_Invariant2", "VxC08_DepthRestored", "VxC08_Indep_Start3", "VxC08_Indep_Select2", "VxC08_Pool"], ["VxC08_Invariant", "VxC08_DepthRestored", "VxC08_Indep_Start4", "VxC08_Indep_Select3", "VxC08_Pool"], ["C08.inv_depth", "C08.same_tree", "C08.same_location"]) + [
            {"pkg": PAR, "harness": "VxSoup_Cut0", "tiers": ["quick", "thorough"], "args": {"max-steps": 400000}, "expect_asserts": ["C08.depth_zero_after_parse"], "budget_judged_by": "C01"},
            {"pkg": TOK, "harness": "VxC08_TokReuse3", "tiers": ["quick"], "expect_asserts": ["C08.tok_same_tokens", "C08.tok_same_spans"]},
            {"pkg": TOK, "harness": "VxC08_TokReuse4", "tiers": ["thorough"], "expect_asserts": ["C08.tok_same_tokens", "C08.tok_same_spans"]}],
    },
    "C09": {
        "bounds": {"quick": "cleanliness: every Get*/Put* pair of pkg/sql/ast/pool.go (generated from the current source), released directly and through the tree-release path, with (a) every field populated and (b) each single field populated in turn (type-directed, symbolic contents; interface fields hold a shared sentinel node); aliasing: every history of <= 3 steps over {parse one of 7 texts and hold, parse and release, release a held tree} with all held trees frozen; cancellation: the C11 runs (ParseContext cancelled at every poll of a 70-token nested statement and of <= 2-token continuations) under a pool monitor: no pooled object is released twice; transform rules: every pair of 15 rule values (AddWhereFromSQL, AddJoinFromSQL, SetLimit/Offset, AddOrderBy, ReplaceTable, AddTableAlias, QualifyColumns, Remove/ReplaceColumn, AddSelectStar, RemoveWhere/Limit/OrderBy/Join) applied to two trees (4 texts each), the second frozen while the first is released, no pooled object put twice; tokenizer: two consecutive Tokenize calls (same and pooled instance) over all inputs <= 3 bytes of the comment alphabet with the first call's tokens and comments frozen",
                   "thorough": "histories of <= 4 steps; tokenizer inputs <= 4 bytes"},
        "outside": "goroutine interleavings (C10); extracted lists and scan results (fresh slices per call by construction; not asserted); Fill depth 2",
        "assumptions": ["sync.Pool is a LIFO stack: Get returns the most recently Put object (realisable on a single P without GC), PoolGC empties the pools"],
        "runs": [
            {"pkg": "pkg/sql/ast", "harness": "VxC09_Clean", "generate": "c09_pools", "expect_asserts": ["C09.clean"]},
            {"pkg": "pkg/sql/ast", "harness": "VxC09_ASTContainer", "expect_asserts": ["C09.clean_container"]},
            {"pkg": PAR, "harness": "VxC11_Nested", "args": {"max-steps": 400000}, "generic": ["pool_double_put"], "engine_only_asserts": ["pool_double_put"], "budget_judged_by": "C01"},
            {"pkg": PAR, "harness": "VxC11_Where2", "tiers": ["quick"], "args": {"max-steps": 400000}, "generic": ["pool_double_put"], "engine_only_asserts": ["pool_double_put"], "budget_judged_by": "C01"},
            {"pkg": "pkg/transform", "harness": "VxC09_Transform", "expect_asserts": ["C09.transform_independent"], "generic": ["pool_double_put"], "engine_only_asserts": ["pool_double_put"]},
            {"pkg": "pkg/gosqlx", "harness": "VxC09_History3", "tiers": ["quick"], "args": {"replace": "context.WithTimeout=VxTimeoutCtx"}, "generic": ["pool_double_put"], "engine_only_asserts": ["pool_double_put"]},
            {"pkg": "pkg/gosqlx", "harness": "VxC09_History4", "tiers": ["thorough"], "args": {"replace": "context.WithTimeout=VxTimeoutCtx"}, "generic": ["pool_double_put"], "engine_only_asserts": ["pool_double_put"]},
            {"pkg": TOK, "harness": "VxC09_TokAlias3", "tiers": ["quick"]},
            {"pkg": TOK, "harness": "VxC09_TokAliasPool3", "tiers": ["quick", "thorough"]},
            {"pkg": TOK, "harness": "VxC09_TokAlias4", "tiers": ["thorough"]},
        ],
    },
    "C14": {
        "bounds": {"quick": "structural: every struct type of the core AST (ast.go, dml.go) that has a Children() method and that the parser constructs (list regenerated from the current source), with each single field populated in turn (type-directed, depth 3, two-element slices, a distinct fresh node per placement): every node pointer stored anywhere below the root must be visited by ast.Inspect; left-deep operator chains of every height 1..300; parser-produced trees: every tree accepted in the C01 token-soup runs (<= 2 tokens per context)",
                   "thorough": "parser-produced trees for <= 3 tokens per context"},
        "outside": "the sqlparser-style DDL helper types of alter.go / types.go / trigger.go; 'nothing that is not part of the tree is visited' (Children() hands out copies whose identity cannot be compared)",
        "assumptions": ["reachability = reflection over the tree's own fields (engine heap walk / native reflect)"],
        "runs": [
            {"pkg": "pkg/sql/ast", "harness": "VxC14_Fields", "generate": "c14_nodes", "expect_asserts": ["C14.visits"]},
            {"pkg": "pkg/sql/ast", "harness": "VxC14_Deep", "expect_asserts": ["C14.deep"]},
        ] + parruns(["VxSoup_Start2", "VxSoup_Select2", "VxSoup_From2", "VxSoup_Where2"], ["VxSoup_Start3", "VxSoup_Select3", "VxSoup_From3", "VxSoup_Where3"], ["C14.tree_visits"]),
    },
    "C15": {
        "bounds": {"quick": "statements generated as parser tokens from (nesting context) x (clause features): 17 contexts (plain, derived table, derived table as first of several FROM items, derived table followed by a join, EXISTS, scalar comparison, IN sub-query, CTE, UNION ALL arm, EXCEPT, joined derived table, scalar select item, INSERT..SELECT, UPDATE/DELETE..WHERE EXISTS, UPDATE SET = (sub-query), WITH..INSERT) x 21 clause features of the inner SELECT (qualified column, function, column alias, nested functions, window PARTITION/ORDER, table alias, schema qualifier, second FROM item, JOIN ON, LEFT JOIN with aliases, JOIN USING, two joins (synthetic left name), CROSS JOIN, WHERE with string literal / function / IS NULL, GROUP BY..HAVING, ORDER BY column / function, DISTINCT..LIMIT); every pair of features on a plain SELECT; 7 DML shapes (INSERT VALUES / RETURNING / ON CONFLICT, UPDATE, DELETE, MERGE with UPDATE+INSERT, MERGE with DELETE); k = 0..59 levels of nested derived tables with a distinct (alternately schema-qualified) table, column and function per level. Every name position holds a finite-domain symbolic name from a two-name pool shared between tables and aliases (columns: {ca, ta}); the solver decides which positions coincide; plus, crossed with every feature in the single-SELECT pair harness only, three multi-reference features: aggregate with its own two-key ORDER BY, multi-branch CASE inside a join condition, multi-branch CASE whose first branch holds an EXISTS sub-query (one symbolic name each, the other references concrete and distinct)",
                   "thorough": "additionally every pair of nesting contexts (17 x 12) around a plain SELECT"},
        "outside": "layout independence (the harness starts from tokens; whitespace/comment insensitivity of the token stream is the tokenizer's, C04/C05); constructs the package documents as limited (CASE, CAST, BETWEEN, recursive CTEs); TRUNCATE/DDL targets; MERGE with a sub-query source (rejected by the parser); pools larger than two names; three or more features at once",
        "assumptions": ["the plain ExtractTables variant may report a schema-qualified table either as written (sa.ta) or by its last part; the qualified variant must preserve the qualifier", "a CTE's defining name is not a table position; a FROM item naming it is"],
        "runs": [
            {"pkg": "pkg/gosqlx", "harness": "VxC15_DML", "expect_asserts": ["C15.tables_complete", "C15.columns_complete", "C15.functions_complete"]},
            {"pkg": "pkg/gosqlx", "harness": "VxC15_Pair", "expect_asserts": ["C15.tables_no_extra", "C15.qtables_complete", "C15.qcolumns_no_extra", "C15.functions_no_extra", "C15.seen_parsed"]},
            {"pkg": "pkg/gosqlx", "harness": "VxC15_Ctx1", "expect_asserts": ["C15.tables_complete", "C15.columns_no_extra", "C15.seen_parsed"]},
            {"pkg": "pkg/gosqlx", "harness": "VxC15_Deep", "expect_asserts": ["C15.tables_complete", "C15.functions_complete"]},
            {"pkg": "pkg/gosqlx", "harness": "VxC15_Ctx2", "tiers": ["thorough"], "expect_asserts": ["C15.tables_complete"]},
        ],
    },
    "C19": {
        "bounds": {"quick": "units behind `gosqlx format` and `gosqlx validate` (Formatter.Format/formatFile/formatSQL, writeFileAtomic, Validator.Validate/validateFile) on an in-memory file system of 2 files, each holding one of 8 texts (valid unformatted, valid, valid+invalid statement, parser-rejected, tokenizer-rejected, comment-only, blank, zero bytes); format: mode (print / --check / -i), --uppercase and --compact symbolic; -i under one injected fault: any of the first 16 file-system operations either returns an I/O error or kills the process, a faulty write leaving k bytes on disk for every k up to the length of the new content; exit status derived as formatRun derives it; lint: lintRun itself (cobra command with buffered writers) on 1-2 files of 7 texts (clean, doubled spaces, blank-line run, tab / mixed indentation, literal and comment with doubled spaces, unparsable, empty): without --auto-fix no file changes, with it every file holds exactly the result of the fix flow, and under one injected fault (1 file in the quick tier) its complete original or complete fixed content; validate reports: FormatValidationJSON and FormatSARIF of every such run are well-formed JSON and name exactly the failing inputs (SARIF version 2.1.0, one run); SARIF artifact URIs: normalizeURI on every path of <= 5 bytes over {. / a b} without empty elements",
                   "thorough": "same with 3 files; URI paths <= 7 bytes"},
        "outside": "the built binary, cobra flag parsing and os.Exit wiring (the exit status is recomputed from the unit's result exactly as formatRun/validateRun do); the real kernel file system (modelled: os.WriteFile truncates then writes, os.Rename is atomic, a crash loses nothing already written); the parse command; lint's exit status and report text; Linter.LintFiles (replaced by a model-FS reader that calls LintString per file); report fields other than well-formedness, verdict and the named inputs (messages, regions, fingerprints: SHA-256 is stubbed under the engine); parse command reports; directory/glob expansion and path security validation (stubbed to the identity); two or more faults in one run",
        "assumptions": ["os.ReadFile/WriteFile/Stat/CreateTemp/Rename/Remove, (*os.File).Write/Chmod/Sync/Close, expandFileArgs, ValidateFileAccess, DetectAndReadInput, ShouldReadFromStdin and Linter.LintFiles are replaced by model functions with the documented contract (call sites rewritten in an overlay of the current sources on every run)", "the library verdict is gosqlx.Validate on the file's text", "encoding/json runs on the host through the engine's type-directed bridge on concrete values"],
        "runs": [
            {"pkg": "cmd/gosqlx/cmd", "harness": "VxC19_Format", "instantiate": C19_INST, "expect_asserts": ["C19.exit_matches_library", "C19.check_only_never_writes", "C19.inplace_writes_formatted", "C19.print_equals_inplace", "C19.check_lists_exactly"]},
            {"pkg": "cmd/gosqlx/cmd", "harness": "VxC19_InPlaceFault", "instantiate": C19_INST, "expect_asserts": ["C19.atomic_replace", "C19.write_failure_reported"]},
            {"pkg": "cmd/gosqlx/cmd", "harness": "VxC19_Validate", "instantiate": C19_INST, "expect_asserts": ["C19.validate_matches_library", "C19.validate_counts"]},
            {"pkg": "cmd/gosqlx/cmd", "harness": "VxC19_Reports", "instantiate": C19_INST, "args": {"replace": "github.com/ajitpratap0/GoSQLX/cmd/gosqlx/internal/output.generateFingerprint=VxFingerprint"},
             "expect_asserts": ["C19.json_report_names_failing", "C19.sarif_report_names_failing", "C19.json_report_wellformed", "C19.sarif_report_wellformed"]},
            {"pkg": "cmd/gosqlx/cmd", "harness": "VxC19_LintFix", "instantiate": C19_INST, "args": {"replace": "github.com/ajitpratap0/GoSQLX/cmd/gosqlx/internal/output.generateFingerprint=VxFingerprint"}, "expect_asserts": ["C19.lint_fix_writes_fixed", "C19.check_only_never_writes"]},
            {"pkg": "cmd/gosqlx/cmd", "harness": "VxC19_LintFixFault1", "tiers": ["quick"], "instantiate": C19_INST, "args": {"replace": "github.com/ajitpratap0/GoSQLX/cmd/gosqlx/internal/output.generateFingerprint=VxFingerprint"}, "expect_asserts": ["C19.atomic_replace"]},
            {"pkg": "cmd/gosqlx/cmd", "harness": "VxC19_LintFixFault", "tiers": ["thorough"], "instantiate": C19_INST, "args": {"replace": "github.com/ajitpratap0/GoSQLX/cmd/gosqlx/internal/output.generateFingerprint=VxFingerprint"}, "expect_asserts": ["C19.atomic_replace"]},
            {"pkg": "cmd/gosqlx/internal/output", "harness": "VxC19_SarifURI5", "tiers": ["quick"], "expect_asserts": ["C19.sarif_uri_names_input"]},
            {"pkg": "cmd/gosqlx/internal/output", "harness": "VxC19_SarifURI7", "tiers": ["thorough"], "expect_asserts": ["C19.sarif_uri_names_input"]},
            {"pkg": "cmd/gosqlx/cmd", "harness": "VxC19_Format3", "tiers": ["thorough"], "instantiate": C19_INST},
            {"pkg": "cmd/gosqlx/cmd", "harness": "VxC19_InPlaceFault3", "tiers": ["thorough"], "instantiate": C19_INST},
            {"pkg": "cmd/gosqlx/cmd", "harness": "VxC19_Validate3", "tiers": ["thorough"], "instantiate": C19_INST},
        ],
    },
    "C16": {
        "bounds": {"quick": "7 payload families (tautology with numbers, with symbolic two-letter string contents, with identifiers; SLEEP / PG_SLEEP calls, LOAD_FILE, BENCHMARK(..., LOAD_FILE(...)) with symbolic letter case) x 10 positions the scanner covers (WHERE, redundant parentheses, AND / OR / NOT operands, HAVING, UPDATE and DELETE WHERE, UNION arm, comment/whitespace layout) and x 9 nested positions of the property's list (known finding); operand closure: each payload as operand of every composition of two wrappers from {itself, parentheses, AND left/right, OR left/right, NOT} in 8 statement frames (WHERE, HAVING, UPDATE, DELETE, UNION arm, lower-case UNION ALL and EXCEPT, comment layout), the scanned tree under the write monitor; severity threshold: 6 statements x {LOW, MEDIUM, HIGH, CRITICAL, invalid}: exact filtering, counts, repeatability, tree untouched (write monitor)",
                   "thorough": "same (the space is finite and explored completely)"},
        "outside": "ScanSQL's regular-expression detection on symbolic text (regex engine not encodable; executed on concrete renderings only); payload spellings beyond letter case and the listed layouts",
        "assumptions": ["trees are produced by the real parser from the assembled text"],
        "runs": [
            {"pkg": "pkg/sql/security", "harness": "VxC16_Closure", "expect_asserts": ["C16.reported"]},
            {"pkg": "pkg/sql/security", "harness": "VxC16_Operands", "expect_asserts": ["C16.reported"], "engine_only_asserts": ["C16.tree_unchanged"]},
            {"pkg": "pkg/sql/security", "harness": "VxC16_ClosureBlind", "expect_asserts": ["C16.reported_nested"]},
            {"pkg": "pkg/sql/security", "harness": "VxC16_Threshold", "expect_asserts": ["C16.threshold_exact", "C16.counts", "C16.repeatable"]},
        ],
    },
    "C17": {
        "bounds": {"quick": "L001 trailing whitespace: all texts <= 4 bytes over {space tab \\n \\r a ' -}; L002 mixed indentation: <= 4 over {space tab \\n a '}; L003 blank lines: <= 5 over {\\n \\r space a '}; L005 redundant whitespace: <= 4 over {space a ' \\n - ,} and every text of <= 4 slots from {a, one blank, two blanks, '--', \"--\", --, \\n, '} (literals and quoted identifiers containing a comment marker before a real comment); L007 keyword case (upper): <= 5 over {o r R space ' \"}; L008 comma placement (no auto-fix): <= 5 over {a , \\n space ' -}; the lint --auto-fix flow (lint once with the CLI's ten rules, then every fixable rule's Fix in order with that run's violations) on every text of <= 3 lines drawn from 8 line shapes (blank, clean, doubled spaces, lower-case keywords with comma issues, tab / mixed indentation, trailing blanks, comment and string literal with doubled spaces), optional final newline: tokens and comments preserved, no violation of a fixed rule left (L007 judged by its own harness), second pass changes nothing",
                   "thorough": "L001 <= 5, L002 <= 6, L003 <= 7, L005 <= 5 bytes and <= 5 slots, L007 <= 6 (upper) and <= 5 (lower)"},
        "outside": "the language server's format action (lsp.formatSQL); the file write-back of lint --fix (C19); L004/L006/L009/L010 (no text rewrite); longer texts; the long-line rule",
        "assumptions": ["'same meaning' = same (kind, value) token sequence from the real tokenizer, keyword values compared case-insensitively, comment texts compared modulo trailing blanks; texts that do not tokenize are outside the claim"],
        "runs": [
            {"pkg": "cmd/gosqlx/cmd", "harness": "VxC17_FixFlow3", "tiers": ["quick"], "expect_asserts": ["C17.flow.idempotent", "C17.flow.same_value"]},
            {"pkg": "cmd/gosqlx/cmd", "harness": "VxC17_FixFlow4", "tiers": ["thorough"], "expect_asserts": ["C17.flow.idempotent"], "thorough": {"timeout": 7200}},
            {"pkg": "pkg/linter/rules/whitespace", "harness": "VxC17_L001_4", "tiers": ["quick"]},
            {"pkg": "pkg/linter/rules/whitespace", "harness": "VxC17_L002_4", "tiers": ["quick"]},
            {"pkg": "pkg/linter/rules/whitespace", "harness": "VxC17_L003_5", "tiers": ["quick"]},
            {"pkg": "pkg/linter/rules/whitespace", "harness": "VxC17_L005_4", "tiers": ["quick"]},
            {"pkg": "pkg/linter/rules/whitespace", "harness": "VxC17_L005_Words4", "tiers": ["quick"], "expect_asserts": ["C17.L005.same_comment", "C17.L005.idempotent"]},
            {"pkg": "pkg/linter/rules/whitespace", "harness": "VxC17_L005_Words5", "tiers": ["thorough"], "expect_asserts": ["C17.L005.same_comment", "C17.L005.idempotent"], "thorough": {"timeout": 7200}},
            {"pkg": "pkg/linter/rules/keywords", "harness": "VxC17_L007_Upper5", "tiers": ["quick"], "expect_asserts": ["C17.L007.same_value", "C17.L007.idempotent", "C17.L007.fixed_is_clean"]},
            {"pkg": "pkg/linter/rules/style", "harness": "VxC17_L008_Trailing5", "tiers": ["quick"]},
            {"pkg": "pkg/linter/rules/whitespace", "harness": "VxC17_L001_5", "tiers": ["thorough"]},
            {"pkg": "pkg/linter/rules/whitespace", "harness": "VxC17_L002_6", "tiers": ["thorough"]},
            {"pkg": "pkg/linter/rules/whitespace", "harness": "VxC17_L003_7", "tiers": ["thorough"]},
            {"pkg": "pkg/linter/rules/whitespace", "harness": "VxC17_L005_5", "tiers": ["thorough"]},
            {"pkg": "pkg/linter/rules/keywords", "harness": "VxC17_L007_Upper6", "tiers": ["thorough"]},
            {"pkg": "pkg/linter/rules/keywords", "harness": "VxC17_L007_Lower5", "tiers": ["thorough"]},
            {"pkg": "pkg/linter/rules/style", "harness": "VxC17_L008_Leading5", "tiers": ["thorough"]},
        ],
    },
    "C18": {
        "bounds": {"quick": "document mirror: every ASCII document <= 3 bytes over {a \\n}, one change that is either a full replacement or an incremental edit whose four position fields are UNCONSTRAINED 64-bit integers (negative, inverted, past-the-end, huge), text <= 1 byte: no panic for any positions, and for well-formed ranges the mirrored text equals the protocol's reference edit; two ranged edits in one notification (positions 0..3 symbolic) over three two-line documents; framing: 'Content-Length:' followed by every value <= 3 bytes over {0-9 - + space}: no panic, body bytes respected; conversations: every history of <= 2 messages handed to Server.handleMessage, each message one of 21 method/params templates (initialize, initialized, didOpen, didChange full and ranged, didSave, didClose, hover, completion, formatting, documentSymbol, signatureHelp, codeAction, wrongly shaped and out-of-range params, shutdown, exit, $/cancelRequest, $/setTrace, unknown and empty method) x id kind (none, number, string) x 4 document texts, or one of 6 raw messages (truncated JSON, wrongly typed method, array, string, empty object, null id): exactly one response with the request's id per message with an id, none otherwise, every outgoing frame exactly framed and jsonrpc 2.0, published diagnostics count equals the recovery parser's error count on the mirrored text and lies inside the document; document histories of <= 3 open/change/save/close notifications",
                   "thorough": "documents <= 5 bytes; two arbitrary changes (positions -1..3) over documents <= 2 bytes; header values <= 4 bytes; document histories <= 4"},
        "outside": "the read loop of Server.Run itself (its two halves are covered: readMessage on symbolic headers, handleMessage on message histories); message texts outside the template tables (JSON bodies are concrete per path: encoding/json runs on the host through a type-directed bridge, so symbolic JSON bytes are not explored); the rate limiter firing (the clock stub never fills a window); UTF-16 columns on non-ASCII text (the mirror treats columns as bytes: a defect the property file already records; not exercised here because the kernels are restricted to ASCII)",
        "assumptions": ["the reference edit (refApply) states the protocol's position rules for ASCII text: a line past the end clamps to the end of the document, a character past the end of a line clamps to the line end"],
        "runs": [
            {"pkg": "pkg/lsp", "harness": "VxC18_Mirror1", "tiers": ["quick"], "generic": ["panic"], "expect_asserts": ["C18.mirror_content"]},
            {"pkg": "pkg/lsp", "harness": "VxC18_Mirror2R", "tiers": ["quick", "thorough"], "generic": ["panic"], "expect_asserts": ["C18.mirror_content2"]},
            {"pkg": "pkg/lsp", "harness": "VxC18_Framing3", "tiers": ["quick"], "generic": ["panic"], "expect_asserts": ["C18.frame_bytes"]},
            {"pkg": "pkg/lsp", "harness": "VxC18_Conversation2", "generic": ["panic"], "expect_asserts": ["C18.one_response", "C18.no_response_to_notification", "C18.frames_exact", "C18.response_id", "C18.diagnostics_of_text"]},
            {"pkg": "pkg/lsp", "harness": "VxC18_DocHistory3", "tiers": ["quick"], "generic": ["panic"], "expect_asserts": ["C18.diagnostics_of_text", "C18.diagnostic_in_document"]},
            {"pkg": "pkg/lsp", "harness": "VxC18_DocHistory4", "tiers": ["thorough"], "generic": ["panic"], "expect_asserts": ["C18.diagnostics_of_text"], "thorough": {"timeout": 7200}},
            {"pkg": "pkg/lsp", "harness": "VxC18_Mirror1L", "tiers": ["thorough"], "generic": ["panic"]},
            {"pkg": "pkg/lsp", "harness": "VxC18_Mirror2", "tiers": ["thorough"], "generic": ["panic"], "thorough": {"timeout": 7200}},
            {"pkg": "pkg/lsp", "harness": "VxC18_Framing4", "tiers": ["thorough"], "generic": ["panic"]},
        ],
    },
    "C10": {
        "bounds": {"quick": "metrics kernel: 2 goroutines, each one RecordTokenization with a symbolic query size (0..999) and symbolic error flag, every interleaving at sync/atomic and mutex granularity with at most 2 preemptions; 2 goroutines RecordParse / RecordPoolGet / RecordPoolPut with symbolic statement counts; after quiescence operations, errors, bytes, min, max, statements, pool counters and the error map equal the true values; library state: 2 goroutines each running one of {gosqlx.Parse, metrics.RecordTokenization+GetStats (successful and failing tokenizations, iterating the error breakdown), errors.SuggestKeyword (suggestion cache), ast.SetSpan/GetSpan (span table), pooled tokenizer Get/Tokenize/Put, ParseWithContext cancelled while tokenizing} (symbolic choice), every interleaving at sync/atomic and mutex granularity with at most 2 preemptions: each call returns what it returns alone, and a happens-before monitor (vector clocks over go/Wait, mutex, atomic, Once and Pool edges) finds no unordered conflicting pair among all loads, stores and map operations of the target code",
                   "thorough": "3 goroutines for the metrics kernel; the 2-goroutine mix over all 8 operations (adds Validate, Format, security scan); 3 goroutines over {metrics, suggestion cache, span table}"},
        "outside": "REDUCED CLAIM. Not claimed: N up to 4x cores goroutines and arbitrary mixes (2-3 goroutines, one operation each, from the listed menu); schedules with more than 2 preemptions; races inside intrinsics' own state (sync.Pool internals, strings.Builder, fmt) and on whole-struct copies versus field writes (the monitor tracks the addressed cell); linting and extraction in the mix (their state is per call; isolation of instances is what C08/C09 establish sequentially); the Go memory model beyond sequentially consistent atomics",
        "assumptions": ["sequentially consistent atomics; scheduling points = sync/atomic operations, mutex operations, goroutine exit"],
        "runs": [
            {"pkg": "pkg/metrics", "harness": "VxC10_Metrics2", "tiers": ["quick", "thorough"], "engine_only_asserts": ["C10.operations", "C10.errors", "C10.bytes", "C10.min", "C10.max", "C10.error_map"], "expect_asserts": ["C10.bytes", "C10.min", "C10.max"]},
            {"pkg": "pkg/metrics", "harness": "VxC10_ParsePool2", "tiers": ["quick", "thorough"], "engine_only_asserts": ["C10.parse_ops", "C10.statements", "C10.pool"], "expect_asserts": ["C10.statements"]},
            {"pkg": "pkg/sql/security", "harness": "VxC10_Race2", "tiers": ["quick"], "engine_only_asserts": ["C10.race", "C10.same_as_alone", "pool_double_put"], "generic": ["pool_double_put"], "expect_asserts": ["C10.same_as_alone"]},
            {"pkg": "pkg/sql/security", "harness": "VxC10_Race2All", "tiers": ["thorough"], "engine_only_asserts": ["C10.race", "C10.same_as_alone", "pool_double_put"], "generic": ["pool_double_put"], "expect_asserts": ["C10.same_as_alone"], "thorough": {"timeout": 7200}},
            {"pkg": "pkg/sql/security", "harness": "VxC10_Race3", "tiers": ["thorough"], "engine_only_asserts": ["C10.race", "C10.same_as_alone", "pool_double_put"], "generic": ["pool_double_put"], "thorough": {"timeout": 7200}},
            {"pkg": "pkg/metrics", "harness": "VxC10_Metrics3", "tiers": ["thorough"], "engine_only_asserts": ["C10.operations", "C10.errors", "C10.bytes", "C10.min", "C10.max", "C10.error_map"], "thorough": {"timeout": 7200}},
        ],
    },
    "C11": {
        "bounds": {"quick": "Parser.ParseContext under a context that turns done at its k-th poll (k symbolic 0..63, both Canceled and DeadlineExceeded, arbitrary start depth 0..49): a 70-token nested statement (CTE, IN list, CASE, nested function calls, JOIN ON, BETWEEN, UNION, EXISTS sub-query), an INSERT ... RETURNING with function calls, and every <= 2-token continuation of SELECT / SELECT a FROM t WHERE over the 45-row expression table; gosqlx.ParseWithContext on 3 texts cancelled at its k-th poll (k = 0..14: wrapper entry, tokenizer, parser) under the pool monitor, and two pooled tokenizers held at once are distinct afterwards; TokenizeContext (poll interval instantiated at 2) on a 9-token input under a cause-carrying context cancelled at its k-th poll, k = 0..7: errors.Is with the context's error, no partial tokens, at most one further poll, uncancelled result equals Tokenize",
                   "thorough": "<= 3-token continuations"},
        "outside": "the real poll interval of TokenizeContext (100 tokens; the harness instantiates the current source at 2 so the polls are reachable); gosqlx.ParseWithContext adds only tokenisation in front of ParseContext",
        "assumptions": ["the context is monotone: once done it stays done with the same error"],
        "runs": parruns(["VxC11_Nested", "VxC11_Returning", "VxC11_Where2", "VxC11_Select2"], ["VxC11_Nested", "VxC11_Returning", "VxC11_Where3", "VxC11_Select3"], ["C11.is_ctx_err", "C11.same_tree", "C11.residue_depth"], extra={"generic": ["pool_double_put"], "engine_only_asserts": ["pool_double_put"]}) + [
            {"pkg": "pkg/gosqlx", "harness": "VxC11_Wrap", "expect_asserts": ["C11.wrap_distinct_pooled"], "generic": ["pool_double_put"], "engine_only_asserts": ["pool_double_put"]},
            {"pkg": TOK, "harness": "VxC11_Tok", "instantiate": {"file": "pkg/sql/tokenizer/tokenizer.go", "regex": r"len\(tokens\)%100 == 0", "repl": "len(tokens)%2 == 0"}, "expect_asserts": ["C11.tok_is_ctx_err", "C11.tok_no_partial", "C11.tok_same"]}],
    },
    "C12": {
        "bounds": {"quick": "token soup: every EOF-terminated stream of <= 3 symbolic tokens (150-row table) at statement start and after 'SELECT a FROM t ;' — termination (unwinding budget) and errors-iff-strict-fails; scripts S1;S2 where each Si is one of 8 valid statements (SELECT x2, SHOW - whose first token is not a synchronisation keyword -, DELETE, DROP, TRUNCATE, CREATE TABLE, INSERT) under a symbolic corruption (none / delete / duplicate / replace by one of 12 tokens / truncate, position symbolic), at most one corrupted; twins: the same corrupted statement twice, optionally around a good one: two errors, exactly the good statements, no nil entry; triples: a good statement, a complete statement followed by stray tokens (6 kinds) and a statement failing at its first token (6 kinds), in 3 orders",
                   "thorough": "<= 4 soup tokens; scripts of 2 statements with both independently corrupted; scripts of 3 statements with one corrupted"},
        "outside": "longer scripts; corruptions that introduce a statement-starting keyword after the first token (excluded by the property itself)",
        "assumptions": ["a statement is 'well-formed' iff strict parsing of it alone (with its terminating semicolon) succeeds with exactly one statement"],
        "runs": parruns(["VxC12_Soup_Start3", "VxC12_Script2q", "VxC12_Twins", "VxC12_Triples"], ["VxC12_Soup_Start4", "VxC12_Soup_Semi4", "VxC12_Script2", "VxC12_Script3q", "VxC12_Soup_Semi3", "VxC12_Twins", "VxC12_Triples"], ["C12.iff", "C12.no_loss", "C12.one_error_per_malformed", "C12.exactly_the_good"], generic=["unwind"]),
    },
    "C13": {
        "bounds": {"quick": "every failing path of the C01 runs (same bounds, including every truncation of the 47-statement corpus): tokenizer errors and low-level parser errors; reproducibility: the same <= 2-token input gives the same code, message and location before and after an unrelated position-tracking parse of another input; a reused tokenizer instance reports the same code, message and location as a fresh one (inputs <= 3 bytes over the failing-literal alphabet after 5 earlier texts)", "thorough": "same as C01 thorough"},
        "outside": "wording of messages and hints; errors of the gosqlx wrappers (checked by C07 harness); reproducibility across Go map iteration order and across parser instance histories (the latter is C08's independence claim)",
        "assumptions": ["documented code families: E1xxx tokenizer, E2xxx parser"],
        "runs": tokruns(["C13.tok_structured", "C13.tok_family"], ["VxC04_All2", "VxC04_Lex3"], ["VxC04_All3", "VxC04_Lex4"]) + tokruns(["C13.tok_structured", "C13.tok_error_line"], ["VxC13_WordsErr2"], ["VxC13_WordsErr3"]) + parruns(["VxSoup_Start2", "VxSoup_Select2", "VxSoup_From2", "VxSoup_Where2", "VxSoup_Cut0"], ["VxSoup_Cut1", "VxSoup_Start3", "VxSoup_Select3", "VxSoup_From3", "VxSoup_Where3"], ["C13.structured", "C13.family"]) + [
            {"pkg": TOK, "harness": "VxC08_TokReuse3", "tiers": ["quick"], "expect_asserts": ["C13.tok_reproducible", "C13.tok_same_location"]},
            {"pkg": TOK, "harness": "VxC08_TokReuse4", "tiers": ["thorough"], "expect_asserts": ["C13.tok_reproducible", "C13.tok_same_location"]},
            {"pkg": PAR, "harness": "VxC13_Repeat", "args": {"max-steps": 400000}, "expect_asserts": ["C13.repeat_same_error"], "budget_judged_by": "C01"}],
    },
    "C04": {
        "bounds": {"quick": "all byte strings of length <= 2 over all 256 byte values; length <= 3 over the 24-symbol lexical alphabet; length <= 5 over the comment alphabet {- / * \\n a space}; word slots: 13 first words (the ten multi-word keyword starts in mixed case, an identifier, SELECT, LEFTY) x <= 2 symbolic separator bytes over {space \\n - ,} x 10 second words (BY, JOIN, SETS, OUTER, x, BYE, 1, none) x <= 1 separator byte x 3 third words; keyword table: every entry of the tokenizer's keyword table (all lengths) in upper, lower, alternating and last-letter-lower case, alone and between identifiers, keeps its kind and its spelling",
                   "thorough": "length <= 3 over all byte values; length <= 4 over the lexical alphabet; length <= 7 over the comment alphabet"},
        "outside": "longer inputs; code points above U+00FF other than the representative set of DESIGN.md 5.3; keywords of 5+ letters with symbolic letters (multi-word keywords are covered by the word-slot harness with concrete spellings)",
        "assumptions": ["reference lexer (harness/pkg/sql/tokenizer/reflex.go) is the oracle for the core lexical grammar; it answers don't-know elsewhere",
                        "unicode predicates on symbolic runes above U+00FF are restricted to a representative set (stated bound)",
                        "time.Now/metrics are stubs; sync.Pool is a LIFO stack"],
        "runs": tokruns(["C04.eof_last", "C04.kind", "C04.value"], ["VxC04_All2", "VxC04_Lex3", "VxC04_Cmt5", "VxC04_Words2"], ["VxC04_All3", "VxC04_Lex4", "VxC04_Cmt7", "VxC04_Words2"]) + [
            {"pkg": TOK, "harness": "VxC04_Keywords", "expect_asserts": ["C04.keyword_kind", "C04.keyword_value"]}],
    },
    "C05": {
        "bounds": {"quick": "token/comment positions for all byte strings of length <= 2 (all bytes), <= 3 (lexical alphabet), <= 5 (comment alphabet), <= 4 (position alphabet {a 1 ' - / * space tab \\n \\r}); the word-slot inputs of C04 (multi-word keywords across spaces and newlines); parser side: the converter's position mapping is index-aligned with the parser tokens and Parser.currentLocation reads the right entry, for every sequence of <= 3 symbolic tokenizer tokens from a 27-row table that includes every multi-word keyword; error blame: every accepted statement of the 47-statement truncation corpus corrupted at every token (cut, deleted, or replaced by one of ) SELECT x ,), dialect symbolic: a located parser error lies at the start of a token, and when its message names the offending token (got X / unexpected token: X) that is the token starting there",
                   "thorough": "length <= 3 all bytes; <= 4 lexical; <= 7 comment; <= 5 position alphabet; mapping for <= 4 tokens"},
        "outside": "exact columns are asserted for tab-free ASCII input only (tabs/multi-byte: ordering and containment only); whether the parser blames the most helpful token (backtracking productions may blame an earlier one); only that the location it reports is where the token it names starts",
        "assumptions": ["expected positions are computed from the reference lexer's byte offsets"],
        "runs": tokruns(["C05.start", "C05.end", "C05.one_based"], ["VxC04_All2", "VxC04_Lex3", "VxC04_Cmt5", "VxC04_Pos4", "VxC04_Words2"], ["VxC04_All3", "VxC04_Lex4", "VxC04_Cmt7", "VxC04_Pos5", "VxC04_Words2"]) + [
            {"pkg": PAR, "harness": "VxC05_Blame", "args": {"max-steps": 400000}, "expect_asserts": ["C05.blame_is_a_token", "C05.blame_names_its_token"], "budget_judged_by": "C01"},
            {"pkg": PAR, "harness": "VxC05_Mapping3", "tiers": ["quick"], "expect_asserts": ["C05.mapping_aligned", "C05.mapping_span", "C05.parser_location"]},
            {"pkg": PAR, "harness": "VxC05_Mapping4", "tiers": ["thorough"], "expect_asserts": ["C05.mapping_aligned", "C05.mapping_span", "C05.parser_location"]},
        ],
    },
}
