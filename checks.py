# Check configuration: which harnesses decide which property, with the bounds per tier.
TOK = "pkg/sql/tokenizer"

def tokruns(prefix_asserts, quick, thorough, generic=None):
    runs = []
    for h in quick:
        runs.append({"pkg": TOK, "harness": h, "tiers": ["quick"], "expect_asserts": prefix_asserts})
    for h in thorough:
        runs.append({"pkg": TOK, "harness": h, "tiers": ["thorough"], "expect_asserts": prefix_asserts, "thorough": {"timeout": 7200}})
    if generic:
        for r in runs:
            r["generic"] = generic
            r["budget_is_violation"] = "unwind" in generic
    return runs

PAR = "pkg/sql/parser"

def parruns(harnesses_q, harnesses_t, asserts, generic=None, extra=None):
    runs = []
    for tier, hs in (("quick", harnesses_q), ("thorough", harnesses_t)):
        for h in hs:
            r = {"pkg": PAR, "harness": h, "tiers": [tier], "expect_asserts": asserts, "args": {"max-steps": 400000}, "thorough": {"timeout": 7200}}
            if generic:
                r["generic"] = generic
                r["budget_is_violation"] = "unwind" in generic
            else:
                r["budget_judged_by"] = "C01"  # non-terminating paths are C01's verdict, not this property's
            if extra:
                r.update(extra)
            runs.append(r)
    return runs

CHECKS = {
    "C01": {
        "bounds": {"quick": "tokenizer: all byte strings <= 2 bytes (all values), <= 3 (lexical alphabet), <= 5 (comment alphabet); low-level parser: every token sequence of <= 2 symbolic tokens drawn from a 150-row lexeme table (statement/clause keywords, operators, literals, and rows no tokenizer produces: type-less, empty literal, mismatched literal, unknown type) at statement start and after SELECT / SELECT a FROM / SELECT a FROM t WHERE, with and without a trailing EOF, strict x dialect symbolic; accepted trees are serialised with AST.SQL",
                   "thorough": "tokenizer <= 3 bytes all values / <= 4 lexical / <= 7 comment; parser <= 3 symbolic tokens in each context"},
        "outside": "inputs longer than the bounds; formatting / extraction / scanning / linting entry points (covered at kernel strength by C06, C14-C17); the Go runtime; regex paths on symbolic text",
        "assumptions": ["termination = every path stays inside the instruction and call-depth budget (unwinding assertion); exceeding it is reported as a candidate hang and replayed natively under a timeout"],
        "runs": tokruns([], ["VxC04_All2", "VxC04_Lex3", "VxC04_Cmt5"], ["VxC04_All3", "VxC04_Lex4", "VxC04_Cmt7"], generic=["panic", "unwind"]) + parruns(["VxSoup_Start2", "VxSoup_Select2", "VxSoup_From2", "VxSoup_Where2"], ["VxSoup_Start3", "VxSoup_Select3", "VxSoup_From3", "VxSoup_Where3"], ["C01.value_or_error"], generic=["panic", "unwind"]),
    },
    "C13": {
        "bounds": {"quick": "every failing path of the C01 runs (same bounds): tokenizer errors and low-level parser errors", "thorough": "same as C01 thorough"},
        "outside": "wording of messages and hints; errors of the gosqlx wrappers (checked by C07 harness); reproducibility across Go map iteration order",
        "assumptions": ["documented code families: E1xxx tokenizer, E2xxx parser"],
        "runs": tokruns(["C13.tok_structured", "C13.tok_family"], ["VxC04_All2", "VxC04_Lex3"], ["VxC04_All3", "VxC04_Lex4"]) + parruns(["VxSoup_Start2", "VxSoup_Select2", "VxSoup_From2", "VxSoup_Where2"], ["VxSoup_Start3", "VxSoup_Select3", "VxSoup_From3", "VxSoup_Where3"], ["C13.structured", "C13.family"]),
    },
    "C04": {
        "bounds": {"quick": "all byte strings of length <= 2 over all 256 byte values; length <= 3 over the 24-symbol lexical alphabet; length <= 5 over the comment alphabet {- / * \\n a space}",
                   "thorough": "length <= 3 over all byte values; length <= 4 over the lexical alphabet; length <= 7 over the comment alphabet"},
        "outside": "longer inputs; code points above U+00FF other than the representative set of DESIGN.md 5.3; compound keywords and keywords of 5+ letters in the byte harnesses",
        "assumptions": ["reference lexer (harness/pkg/sql/tokenizer/reflex.go) is the oracle for the core lexical grammar; it answers don't-know elsewhere",
                        "unicode predicates on symbolic runes above U+00FF are restricted to a representative set (stated bound)",
                        "time.Now/metrics are stubs; sync.Pool is a LIFO stack"],
        "runs": tokruns(["C04.eof_last", "C04.kind", "C04.value"], ["VxC04_All2", "VxC04_Lex3", "VxC04_Cmt5"], ["VxC04_All3", "VxC04_Lex4", "VxC04_Cmt7"]),
    },
    "C05": {
        "bounds": {"quick": "token/comment positions for all byte strings of length <= 2 (all bytes), <= 3 (lexical alphabet), <= 5 (comment alphabet), <= 4 (position alphabet {a 1 ' - / * space tab \\n \\r})",
                   "thorough": "length <= 3 all bytes; <= 4 lexical; <= 7 comment; <= 5 position alphabet"},
        "outside": "exact columns are asserted for tab-free ASCII input only (tabs/multi-byte: ordering and containment only); parser error locations are judged by the parser harness",
        "assumptions": ["expected positions are computed from the reference lexer's byte offsets"],
        "runs": tokruns(["C05.start", "C05.end", "C05.one_based"], ["VxC04_All2", "VxC04_Lex3", "VxC04_Cmt5", "VxC04_Pos4"], ["VxC04_All3", "VxC04_Lex4", "VxC04_Cmt7", "VxC04_Pos5"]),
    },
}
