#!/usr/bin/env python3
"""Regenerates MANIFEST.json from checks.py + manifest_meta.py (kept valid at all times)."""
import json, sys
sys.path.insert(0, "/verif")
from checks import CHECKS
from manifest_meta import META, NOT_APPLICABLE
BASE = json.load(open("/root/.vp/BASELINE.json"))["cmd"]
checks = []
for pid in sorted(CHECKS):
    m = META[pid]
    checks.append({
        "property_id": pid,
        "quick_cmd": "./check %s --tier quick" % pid,
        "thorough_cmd": "./check %s --tier thorough" % pid,
        "evidence_file": "/verif/evidence/%s.json" % pid,
        "replay_cmd_template": "./check replay {path}",
        "engine": "gosx",
        "level_claimed": {"category": "model_checking", "text": m["text"], "design_ref": m["ref"]},
        "level_note": m["note"],
        "technique": m.get("technique", "bounded symbolic execution of the real Go code (go/ssa) with SMT-decided branches and assertions (z3), counterexamples replayed natively"),
    })
man = {
    "version": 1,
    "setup_cmd": "cd /verif/engine && GOFLAGS=-mod=mod GOPROXY=off GOSUMDB=off GOTOOLCHAIN=local go build -o /verif/bin/gosx ./cmd/gosx",
    "hooks": {"guard": "verif", "enable": "none needed: harnesses are injected with go/packages overlays (engine) and `go test -overlay` (native replay); no tagged code in /repo",
              "baseline_off_cmd": BASE, "source_commits": [], "add_only": True},
    "engines": [{"name": "gosx", "path": "/verif/engine", "serves_properties": sorted(CHECKS), "kind_free_text": "own symbolic executor for Go SSA (derived from x/tools/go/ssa/interp): path-wise QF_BV encoding, z3 over a pipe with an incremental assertion stack, concolic models, decision-prefix re-execution, native replay through the zzvx tape API"}],
    "checks": checks,
    "notes": "See DESIGN.md. Genuine defects found on the pinned tree were repaired by `fix:` commits in /repo (recorded as fixed in known_findings.json) or are listed there as known findings.",
    "not_applicable": NOT_APPLICABLE,
}
json.dump(man, open("/verif/MANIFEST.json", "w"), indent=1)
import jsonschema
jsonschema.validate(man, json.load(open("/root/.vp/MANIFEST.schema.json")))
print("MANIFEST.json ok:", [c["property_id"] for c in checks], "n/a:", [n["property_id"] for n in NOT_APPLICABLE])
