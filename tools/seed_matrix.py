#!/usr/bin/env python3
"""seed_matrix.py [ids...]: applies each seeded change to /repo, runs the quick check of its property
(plus extra checks given in EXTRA), restores /repo, and records the outcome in seeded/<id>/meta.json."""
import json, os, re, subprocess, sys, glob
V = "/verif"
R = os.environ.get("SEED_REPO", "/repo")  # a scratch worktree may stand in for /repo (then outputs go to SEED_OUT)
ENV = dict(os.environ)
if R != "/repo":
    ENV["VERIF_REPO"] = R
    ENV["VERIF_OUT"] = os.environ.get("SEED_OUT", "/tmp/seedout")
    os.makedirs(ENV["VERIF_OUT"], exist_ok=True)
EXTRA = {"C10b": ["C09"], "C04b": ["C05"], "C05a": ["C04"], "C13b": ["C01"], "C08a": ["C02"], "C13d": ["C08"], "C13c": ["C08"], "C01d": ["C14"], "C07e": ["C08"], "C09e": ["C11"], "C08g": ["C13"], "C11g": ["C08"], "C07i": ["C12"], "C10i": ["C11", "C09"], "C13i": ["C08"]}
ids = sys.argv[1:] or sorted(os.path.basename(os.path.dirname(p)) for p in glob.glob(V + "/seeded/*/meta.json"))
def sh(*a, **k): return subprocess.run(*a, **k)
for sid in ids:
    d = os.path.join(V, "seeded", sid)
    meta = json.load(open(os.path.join(d, "meta.json")))
    if sh(["git", "-C", R, "status", "--porcelain"], capture_output=True, text=True).stdout.strip():
        sys.exit("repo dirty")
    r = sh(["git", "-C", R, "apply", os.path.join(d, "patch.diff")], capture_output=True, text=True)
    if r.returncode != 0:
        meta["detected_by"] = None
        meta["matrix"] = {"error": "patch does not apply to the current tree: " + r.stderr.strip()[:200]}
        json.dump(meta, open(os.path.join(d, "meta.json"), "w"), indent=1)
        print(sid, "PATCH-FAIL"); continue
    res = {}
    try:
        for prop in [meta["property"]] + EXTRA.get(sid, []):
            r = sh([os.path.join(V, "check"), prop, "--tier", "quick"], capture_output=True, text=True, cwd=V, env=ENV)
            viol = [l for l in r.stdout.splitlines() if l.startswith("VIOLATION")]
            det = [l.strip() for l in r.stdout.splitlines() if l.startswith("  harness=")]
            inc = [l for l in r.stdout.splitlines() if l.startswith("INCONCLUSIVE")]
            first = ""
            if det:
                m = re.match(r"harness=(\S+) assert=(\S+)", det[0])
                first = "%s %s" % (m.group(1), m.group(2)) if m else det[0][:80]
            res[prop] = {"exit": r.returncode, "violations": len(viol), "inconclusive": len(inc), "first": first}
    finally:
        sh(["git", "-C", R, "checkout", "--", "."])
        sh(["git", "-C", R, "clean", "-fdq"])
    caught = [p for p, x in res.items() if x["violations"] > 0]
    meta["detected_by"] = caught or None
    meta["matrix"] = res
    json.dump(meta, open(os.path.join(d, "meta.json"), "w"), indent=1)
    print(sid, json.dumps(res))
    sh(["rm", "-rf"] + [os.path.join(ENV.get("VERIF_OUT", V), "replays", p) for p in res])
