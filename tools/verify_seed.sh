#!/bin/bash
# verify_seed.sh <prop> <variant> : confirms a seeded change in a scratch worktree and stores it under /verif/seeded/
# usage: verify_seed.sh C04 a
set -u
export GOFLAGS=-mod=mod GOPROXY=off GOSUMDB=off GOTOOLCHAIN=local
P=$1; V=$2
SRC=${SEEDROOT:-/tmp/seed}/out/$P/$V
WT=/tmp/seedverify_$P$V
ID=$P$V
rm -rf $WT; git -C /repo worktree prune; git -C /repo worktree add --detach $WT HEAD >/dev/null 2>&1 || exit 2
place=$(head -1 $SRC/demo_test.go | sed 's#// place at: ##' | tr -d '\r ')
pkgdir=$(dirname $place)
cp $SRC/demo_test.go $WT/$place
testname=$(grep -o 'func Test[A-Za-z0-9_]*' $SRC/demo_test.go | head -1 | sed 's/func //')
cd $WT
demo_before=$( (timeout 600 go test -vet=off -count=1 -run "$(grep -o 'func Test[A-Za-z0-9_]*' $SRC/demo_test.go | sed 's/func //' | paste -sd'|')" ./$pkgdir >/tmp/sv_$ID.before 2>&1) && echo PASS || echo FAIL)
git apply $SRC/patch.diff || { echo "patch does not apply"; exit 3; }
build=$( (go build ./... >/tmp/sv_$ID.build 2>&1) && echo OK || echo FAIL)
mv $WT/$place /tmp/sv_$ID.demo.go
suite=$(timeout 1500 go test -vet=off -count=1 ./... 2>&1 | grep -v "^ok\|no test files" | grep "^FAIL\|^---" | grep -v "TestValidateInputFile_NoReadPermissions\|TestValidator_PermissionDenied\|^FAIL$\|FAIL	github.com/ajitpratap0/GoSQLX/cmd/gosqlx/internal/validate\|FAIL	github.com/ajitpratap0/GoSQLX/cmd/gosqlx/cmd" | head -5)
mv /tmp/sv_$ID.demo.go $WT/$place
demo_after=$( (timeout 600 go test -vet=off -count=1 -run "$(grep -o 'func Test[A-Za-z0-9_]*' $SRC/demo_test.go | sed 's/func //' | paste -sd'|')" ./$pkgdir >/tmp/sv_$ID.after 2>&1) && echo PASS || echo FAIL)
cd /
git -C /repo worktree remove --force $WT
echo "$ID demo_before=$demo_before build=$build suite_unexpected_failures=[${suite}] demo_after=$demo_after"
if [ "$demo_before" = PASS ] && [ "$build" = OK ] && [ -z "$suite" ] && [ "$demo_after" = FAIL ]; then
  D=/verif/seeded/$ID; mkdir -p $D
  cp $SRC/patch.diff $D/patch.diff; cp $SRC/demo_test.go $D/demo_test.go; cp $SRC/notes.md $D/notes.md
  python3 - "$P" "$ID" "$place" <<PY
import json,sys
p,i,place=sys.argv[1:4]
notes=open('/verif/seeded/%s/notes.md'%i).read()
json.dump({"id":i,"property":p,"demo_place_at":place,
 "needs_to_manifest":"see notes.md (written by the independent sub-agent that produced the change)",
 "confirmed":{"demo_without_change":"PASS","go_build":"OK","existing_suite_with_change":"only the two root-permission tests that already fail on the unchanged tree","demo_with_change":"FAIL"},
 "ran":["git worktree add (scratch)","go test -run <demo> (unchanged) = PASS","git apply patch.diff","go build ./...","go test -vet=off -count=1 ./...","go test -run <demo> (changed) = FAIL","git worktree remove --force"],
 "detected_by":None},open('/verif/seeded/%s/meta.json'%i,'w'),indent=1)
PY
  echo "KEPT $ID"
else
  echo "REJECTED $ID"
fi
