#!/bin/bash
# try_seed.sh <seedID> <PROP> [tier] : apply a seeded change to /repo, run the check, undo.
ID=$1; P=$2; T=${3:-quick}
cd /repo && git status --porcelain | grep -q . && { echo "repo dirty"; exit 2; }
git -C /repo apply /verif/seeded/$ID/patch.diff || exit 3
cd /verif && ./check $P --tier $T > /tmp/try_$ID_$P.log 2>&1; rc=$?
git -C /repo checkout -- .
grep -c "^VIOLATION" /tmp/try_$ID_$P.log | sed "s/^/$ID vs $P ($T): exit=$rc violations=/"
grep "^VIOLATION\|^INCONCLUSIVE" -A1 /tmp/try_$ID_$P.log | head -${4:-6}
