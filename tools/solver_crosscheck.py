"""solver_crosscheck.py: after `gosx ... -query-log /tmp/qlog`, runs the logged assertion queries (standalone SMT-LIB2, push/pop) through z3 4.8.12, z3 5.1.0 and cvc5 and reports any disagreement."""
import sys,subprocess,re,glob
files=sorted(glob.glob('/tmp/qlog.*'))[:4]
tot=0; dis=0
for f in files:
    txt=open(f).read()
    # expected verdict per query from the comment "expect=N" (0 = unsat i.e. holds)
    exp=[int(x) for x in re.findall(r'^; assert \S+ expect=(\d)',txt,re.M)]
    res={}
    for name,cmd in (('z3',['z3','-in']),('z3-new',['z3-new','-in']),('cvc5',['cvc5','--incremental','--lang','smt2'])):
        r=subprocess.run(cmd,input=txt,capture_output=True,text=True,timeout=900)
        out=[l for l in r.stdout.split() if l in('sat','unsat','unknown')]
        err=[l for l in r.stdout.splitlines() if '(error' in l]
        res[name]=(out,err)
    n=len(res['z3'][0]); tot+=n
    for k in range(n):
        vs={name:res[name][0][k] if k<len(res[name][0]) else 'missing' for name in res}
        if len(set(vs.values()))!=1: dis+=1; print('DISAGREE',f,k,vs)
    print(f,n,{k:(len(v[0]),len(v[1])) for k,v in res.items()})
print('queries',tot,'disagreements',dis)
