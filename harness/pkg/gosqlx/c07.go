package gosqlx

// C07 at the convenience layer: every wrapper agrees with Parse on every text of a
// table of SQL texts, and batch calls return what the individual calls return.
// The texts are concrete (the token-level agreement for arbitrary streams is decided
// by the parser-package harness); what is symbolic here is which texts are combined
// into which batch positions.

import (
	"context"
	"errors"
	"github.com/ajitpratap0/GoSQLX/pkg/sql/tokenizer"
	"time"

	goerrors "github.com/ajitpratap0/GoSQLX/pkg/errors"
	"github.com/ajitpratap0/GoSQLX/pkg/sql/ast"
	"github.com/ajitpratap0/GoSQLX/pkg/sql/parser"
	vx "github.com/ajitpratap0/GoSQLX/zzvx"
)

var vxTexts = []string{
	"SELECT a FROM t",
	"SELECT a FROM t WHERE a = 1 ; SELECT b FROM u",
	";SELECT 1",
	"; ; DELETE FROM t WHERE a = 1 ;",
	"SELECT FROM",
	"SELECT a FROM t WHERE",
	"SELECT 'unterminated",
	"SELECT a ) FROM t",
	"UPDATE t SET a = 1 ; SELECT FROM ; SELECT 2",
	"SELECT a /* c */ FROM t -- x",
	"select \"q\" from t where a in (1,2) order by a desc limit 3",
	"\xef\xbb\xbfSELECT a FROM t", // byte-order mark in front of a valid statement
	"\xef\xbb\xbfSELECT FROM",     // ... and of an invalid one
	"SELECT a\r\nFROM t\r\n",      // CRLF
	"SHOW TABLES",                 // statement kinds whose first word is not a clause keyword
	"DESCRIBE t",
	"EXPLAIN SELECT a FROM t",
	"REPLACE INTO t ( a ) VALUES ( 1 )",
	"TRUNCATE TABLE t ; SHOW TABLES",
}

func vxCode(err error) string {
	if err == nil {
		return ""
	}
	var se *goerrors.Error
	if errors.As(err, &se) {
		return string(se.Code)
	}
	return "unstructured"
}

func vxTreeEq(a, b *ast.AST) bool {
	if a == nil || b == nil {
		return a == b
	}
	if len(a.Statements) != len(b.Statements) {
		return false
	}
	for k := range a.Statements {
		if !vx.DeepEqual(a.Statements[k], b.Statements[k]) {
			return false
		}
	}
	return true
}

// VxTimeoutCtx replaces context.WithTimeout under the engine (no timers there).
func VxTimeoutCtx(parent context.Context, d time.Duration) (context.Context, context.CancelFunc) {
	return parent, func() {}
}

func VxC07_Wrappers() {
	sql := vxTexts[vx.Choice(len(vxTexts))]
	vx.Notef("sql=%q", sql)
	base, berr := Parse(sql)
	bcode := vxCode(berr)
	vx.Notef("Parse ok=%v code=%s", berr == nil, bcode)
	check := func(name string, t *ast.AST, err error, hasTree bool) {
		vx.Assertf("C07.wrap_verdict", (err == nil) == (berr == nil), "Parse ok=%v but %s ok=%v", berr == nil, name, err == nil)
		if (err == nil) != (berr == nil) {
			return
		}
		if err != nil {
			vx.Assertf("C07.wrap_code", vxCode(err) == bcode, "Parse fails with %s but %s with %s", bcode, name, vxCode(err))
		} else if hasTree {
			vx.Assertf("C07.wrap_tree", vxTreeEq(base, t), "Parse and %s return different trees", name)
		}
	}
	t, err := ParseBytes([]byte(sql))
	check("ParseBytes", t, err, true)
	t, err = ParseWithContext(context.Background(), sql)
	check("ParseWithContext", t, err, true)
	t, err = ParseWithTimeout(sql, time.Hour)
	check("ParseWithTimeout", t, err, true)
	check("Validate", nil, Validate(sql), false)
	t, err = parser.ParseBytes([]byte(sql))
	check("parser.ParseBytes", t, err, true)
	check("parser.Validate", nil, parser.Validate(sql), false)
	t, _, err = parser.ParseBytesWithTokens([]byte(sql))
	check("parser.ParseBytesWithTokens", t, err, true)
	stmts, errs := ParseWithRecovery(sql)
	var rerr error
	if len(errs) > 0 {
		rerr = errs[0]
	}
	if len(errs) <= 1 {
		check("ParseWithRecovery", &ast.AST{Statements: stmts}, rerr, len(errs) == 0)
	} else {
		vx.Assertf("C07.wrap_verdict", berr != nil, "Parse accepts but ParseWithRecovery reports %d errors", len(errs))
	}
}

func VxC07_Batch() {
	n := 1 + vx.Choice(3)
	qs := make([]string, n)
	for k := range qs {
		qs[k] = vxTexts[vx.Choice(len(vxTexts))]
		vx.Notef("q[%d]=%q", k, qs[k])
	}
	// expected: the individual calls, first failing index
	first := -1
	var ferr error
	trees := make([]*ast.AST, n)
	for k, q := range qs {
		t, err := Parse(q)
		trees[k] = t
		if err != nil && first < 0 {
			first, ferr = k, err
		}
	}
	got, err := ParseMultiple(qs)
	vx.Assertf("C07.batch_verdict", (err == nil) == (first < 0), "individual calls first fail at %d but ParseMultiple err=%v", first, err)
	if err == nil && first < 0 {
		vx.Assertf("C07.batch_len", len(got) == n, "ParseMultiple returned %d trees for %d queries", len(got), n)
		if len(got) == n {
			for k := range got {
				vx.Assertf("C07.batch_tree", vxTreeEq(got[k], trees[k]), "ParseMultiple tree %d differs from Parse", k)
			}
		}
	}
	if err != nil && first >= 0 {
		vx.Assertf("C07.batch_code", vxCode(err) == vxCode(ferr), "query %d fails alone with %s, ParseMultiple reports %s: %v", first, vxCode(ferr), vxCode(err), err)
	}
	verr := ValidateMultiple(qs)
	vx.Assertf("C07.batch_verdict", (verr == nil) == (first < 0), "individual calls first fail at %d but ValidateMultiple err=%v", first, verr)
	if verr != nil && first >= 0 {
		vx.Assertf("C07.batch_code", vxCode(verr) == vxCode(ferr), "query %d fails alone with %s, ValidateMultiple reports %s", first, vxCode(ferr), vxCode(verr))
	}
}

// ---- C01 size sweep: every public text entry point on statements whose one variable-size
// element (identifier, quoted identifier, string, number, comment, parenthesis nest, list) has a
// symbolic size 0..130: fixed-size scratch buffers and "fast path up to N" limits sit on such
// boundaries, far beyond what the byte-level harnesses reach.
func vxRepeat(s string, n int) string {
	out := ""
	for k := 0; k < n; k++ {
		out += s
	}
	return out
}

func VxC01_Sizes() {
	n := vx.Choice(131)
	kind := vx.Choice(9)
	var sql string
	switch kind {
	case 0:
		sql = "SELECT " + vxRepeat("a", n) + " FROM t"
	case 1:
		sql = "SELECT `" + vxRepeat("a", n) + "` FROM t"
	case 2:
		sql = "SELECT \"" + vxRepeat("a", n) + "\" FROM t"
	case 3:
		sql = "SELECT '" + vxRepeat("a", n) + "' FROM t"
	case 4:
		sql = "SELECT 1" + vxRepeat("0", n) + " FROM t"
	case 5:
		sql = "SELECT a /*" + vxRepeat("c", n) + "*/ FROM t -- " + vxRepeat("d", n)
	case 6:
		sql = "SELECT " + vxRepeat("(", n%40) + "a" + vxRepeat(")", n%40) + " FROM t"
	case 7:
		sql = "SELECT a" + vxRepeat(", a", n%40) + " FROM t"
	default:
		sql = "SELECT a FROM " + vxRepeat("s.", n%4) + vxRepeat("t", n) + " AS " + vxRepeat("x", n)
	}
	vx.Notef("kind=%d n=%d", kind, n)
	tree, err := Parse(sql)
	vx.Assert("C01.size_value_or_error", (tree != nil) != (err != nil))
	if err == nil {
		_ = tree.SQL()
		_ = ExtractMetadata(tree)
	}
	_ = Validate(sql)
	_, _ = Format(sql, DefaultFormatOptions())
	_, _ = ParseWithRecovery(sql)
	vx.Assert("C01.size_returns", true)
}

// ---- C11 at the convenience layer: ParseWithContext under a context that turns done at its k-th
// poll (k symbolic; polls happen at the wrapper's entry, in TokenizeContext and in ParseContext):
// a cancelled call reports the context's error and no tree; no pooled object is released twice
// (engine-side pool monitor); the pools then hand out distinct objects to two holders.

type vxCountCtx struct {
	context.Context
	k, n int
}

func (c *vxCountCtx) Err() error {
	c.n++
	if c.n > c.k {
		return context.Canceled
	}
	return nil
}

func (c *vxCountCtx) Done() <-chan struct{} { return nil }

func VxC11_Wrap() {
	sql := []string{"SELECT a FROM t", "SELECT a , b FROM t WHERE a IN ( 1 , 2 ) ; DELETE FROM u", "SELECT 'open"}[vx.Choice(3)]
	ctx := &vxCountCtx{Context: context.Background(), k: vx.Choice(15)}
	vx.Notef("sql=%q cancel at poll %d", sql, ctx.k)
	tree, err := ParseWithContext(ctx, sql)
	observed := ctx.n > ctx.k
	vx.Notef("polls=%d observed=%v ok=%v", ctx.n, observed, err == nil)
	if observed && err != nil {
		_, plain := Parse(sql)
		if plain == nil {
			vx.Assertf("C11.wrap_is_ctx_err", errors.Is(err, context.Canceled), "cancelled ParseWithContext returns %v", err)
		}
		vx.Assertf("C11.wrap_no_tree", tree == nil, "a failed ParseWithContext returns a tree")
	}
	// two holders at once get two objects
	t1 := tokenizer.GetTokenizer()
	t2 := tokenizer.GetTokenizer()
	vx.Assertf("C11.wrap_distinct_pooled", !vx.SameObject(t1, t2), "the tokenizer pool hands the same instance to two holders")
	tokenizer.PutTokenizer(t1)
	tokenizer.PutTokenizer(t2)
}
