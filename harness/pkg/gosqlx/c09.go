package gosqlx

// C09: values handed to the caller are not modified by later library activity, and
// releasing one tree never changes another live tree. Histories of parse / hold /
// release / pool-get are symbolic (choice per step); held trees are frozen: the engine
// reports any write into a cell reachable from them.

import (
	"github.com/ajitpratap0/GoSQLX/pkg/sql/ast"
	vx "github.com/ajitpratap0/GoSQLX/zzvx"
)

var vxAliasTexts = []string{
	"SELECT ((1,2),(3,4)) FROM t",
	"SELECT (a,b) FROM t WHERE (a,b) IN ((1,2),(3,4))",
	"SELECT (c,d) FROM u",
	"SELECT ARRAY[1,2], f(x, g(y)) FROM t WHERE a BETWEEN 1 AND 2",
	"SELECT a FROM t WHERE a IN (1,2) AND b = CASE WHEN c THEN 1 ELSE 2 END",
	"INSERT INTO t (a,b) VALUES (1,2),(3,4)",
	"UPDATE t SET a = 1, b = (2,3) WHERE c = 4",
}

func vxRefreeze(held []*ast.AST) {
	vx.Unfreeze()
	for _, t := range held {
		vx.Freeze(t, "C09.frozen held tree")
	}
}

func vxHistory(steps int) {
	vx.PoolGC()
	var held []*ast.AST
	for s := 0; s < steps; s++ {
		op := vx.Choice(3)
		switch op {
		case 0, 1: // parse; hold it (0) or release it at once (1)
			k := vx.Choice(len(vxAliasTexts))
			vx.Notef("step %d: parse %q hold=%v", s, vxAliasTexts[k], op == 0)
			t, err := Parse(vxAliasTexts[k])
			if err != nil {
				vx.Fail("C09.table", "table text does not parse")
				return
			}
			if op == 0 {
				held = append(held, t)
				vxRefreeze(held)
			} else {
				ast.ReleaseAST(t)
			}
		case 2: // release one of the held trees
			if len(held) == 0 {
				continue
			}
			j := vx.Choice(len(held))
			vx.Notef("step %d: release held tree %d", s, j)
			t := held[j]
			held = append(append([]*ast.AST{}, held[:j]...), held[j+1:]...)
			vxRefreeze(held) // the released tree may be written; the others may not
			ast.ReleaseAST(t)
		}
	}
	vx.Unfreeze()
}

func VxC09_History3() { vxHistory(3) }
func VxC09_History4() { vxHistory(4) }
