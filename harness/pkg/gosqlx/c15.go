package gosqlx

// C15: extracted tables / columns / functions are exactly those written.
//
// A generator builds a statement as parser tokens from (nesting context) x (clause features):
// every name position is filled with a finite-domain symbolic name drawn from a two-name pool
// (the solver decides which positions share a name), and the generator records which names it
// put into table, column and function positions. The statement is parsed by the real parser,
// ExtractMetadata is run on the tree, and the five result lists are compared as sets against the
// generator's record: nothing missing, nothing extra (aliases, CTE definition names, synthetic
// join names, string contents), no duplicates, qualifiers preserved in the qualified variants.

import (
	"github.com/ajitpratap0/GoSQLX/pkg/sql/parser"
	"github.com/ajitpratap0/GoSQLX/pkg/sql/token"
	vx "github.com/ajitpratap0/GoSQLX/zzvx"
)

type vxQN struct{ q, n string }

type vxGen struct {
	toks  []token.Token
	tabs  []vxQN // schema, name
	cols  []vxQN // qualifier as written, name
	funcs []string
	trail []string // human-readable shape, for the witness
}

var (
	vxIdentType = parser.VxFixed("ta")[0].Type
	vxTabPool   = []string{"ta", "tb"}
	vxColPool   = []string{"ca", "ta"}
	vxFixCache  = map[string][]token.Token{}
)

// pieces tokenised once at package initialisation
var vxC15Pieces = []string{
	"SELECT", "FROM", ",", ".", "(", ")", "AS", "JOIN", "LEFT JOIN", "ON", "=", "USING", "WHERE", "AND",
	"= 'zz'", "> 1", "IS NULL", "<> 1", "GROUP BY", "HAVING", "ORDER BY", "DESC", "OVER ( PARTITION BY", "EXISTS (", "= (", "IN (",
	"WITH", "AS (", "UNION", "INSERT INTO", "UPDATE", "SET", "= 1", "DELETE FROM", "MERGE INTO", "WHEN MATCHED THEN UPDATE SET",
	"WHEN MATCHED THEN DELETE", "WHEN NOT MATCHED THEN INSERT (", "VALUES (", "VALUES ( 1 )", "+ 1", "RETURNING", "ON CONFLICT (", "DO UPDATE SET",
	"sa", "fa", "fb", "COUNT", "1", "2", "UNION ALL", "EXCEPT", "INNER JOIN", "CROSS JOIN", "NATURAL JOIN", "DISTINCT", "LIMIT 1", "LATERAL (",
}

func init() {
	for _, s := range vxC15Pieces {
		vxFixCache[s] = parser.VxFixed(s)
	}
}

func (g *vxGen) fix(s string) {
	t, ok := vxFixCache[s]
	if !ok {
		t = parser.VxFixed(s)
	}
	g.toks = append(g.toks, t...)
}

func (g *vxGen) ident(pool []string) string {
	s := vx.PickStr(vx.Small(len(pool)), pool)
	g.toks = append(g.toks, token.Token{Type: vxIdentType, Literal: s})
	return s
}

// name positions
func (g *vxGen) table() {
	n := g.ident(vxTabPool)
	g.tabs = append(g.tabs, vxQN{"", n})
}
func (g *vxGen) schemaTable() {
	g.fix("sa")
	g.fix(".")
	n := g.ident(vxTabPool)
	g.tabs = append(g.tabs, vxQN{"sa", n})
}
func (g *vxGen) alias() { g.ident(vxTabPool) }
func (g *vxGen) col() {
	n := g.ident(vxColPool)
	g.cols = append(g.cols, vxQN{"", n})
}
// kcol places a column reference with a fixed, feature-private name (keeps the multi-reference
// features cheap: one symbolic name per feature, the rest concrete and pairwise distinct)
func (g *vxGen) kcol(n string) {
	g.toks = append(g.toks, token.Token{Type: vxIdentType, Literal: n})
	g.cols = append(g.cols, vxQN{"", n})
}
func (g *vxGen) qcol() {
	q := g.ident(vxTabPool)
	g.fix(".")
	n := g.ident(vxColPool)
	g.cols = append(g.cols, vxQN{q, n})
}
func (g *vxGen) fn(name string) {
	g.fix(name)
	g.funcs = append(g.funcs, name)
}

// clause features of one SELECT
const (
	fNone = iota
	fQCol
	fFn
	fColAlias
	fNestFn
	fWindow
	fTabAlias
	fSchema
	fFrom2
	fJoin
	fLeftJoinAlias
	fJoinUsing
	fJoin2
	fCrossJoin
	fWhereStr
	fWhereFn
	fWhereNull
	fGroup
	fOrder
	fOrderFn
	fDistinctLimit
	fAggOrder2
	fJoinCase
	fCaseSub
	nFeat
)

// the nesting-context harnesses keep the first-generation features (the multi-reference features
// are crossed with every other feature in VxC15_Pair only: cost)
const nFeatCtx = fAggOrder2

var vxFeatNames = []string{"none", "qcol", "fn", "colalias", "nestfn", "window", "tabalias", "schema", "from2", "join", "leftjoinalias",
	"joinusing", "join2", "crossjoin", "wherestr", "wherefn", "wherenull", "group", "order", "orderfn", "distinctlimit", "aggorder2", "joincase", "casesub"}

func (g *vxGen) sel(f1, f2 int) {
	has := func(f int) bool { return f1 == f || f2 == f }
	g.trail = append(g.trail, "sel["+vxFeatNames[f1]+","+vxFeatNames[f2]+"]")
	g.fix("SELECT")
	if has(fDistinctLimit) {
		g.fix("DISTINCT")
	}
	g.col()
	if has(fQCol) {
		g.fix(",")
		g.qcol()
	}
	if has(fFn) {
		g.fix(",")
		g.fn("fa")
		g.fix("(")
		g.col()
		g.fix(")")
	}
	if has(fColAlias) {
		g.fix(",")
		g.col()
		g.fix("AS")
		g.alias()
	}
	if has(fNestFn) {
		g.fix(",")
		g.fn("fa")
		g.fix("(")
		g.fn("fb")
		g.fix("(")
		g.col()
		g.fix(")")
		g.fix(")")
	}
	if has(fWindow) {
		g.fix(",")
		g.fn("fa")
		g.fix("(")
		g.col()
		g.fix(")")
		g.fix("OVER ( PARTITION BY")
		g.col()
		g.fix("ORDER BY")
		g.col()
		g.fix(")")
	}
	if has(fAggOrder2) { // aggregate with its own multi-key ORDER BY: every key is a column reference
		g.fix(",")
		g.fn("fa")
		g.fix("(")
		g.col()
		g.fix("ORDER BY")
		g.kcol("ka1")
		g.fix(",")
		g.kcol("ka2")
		g.fix(")")
	}
	if has(fCaseSub) { // multi-branch CASE whose first branch holds a sub-query
		g.fix(", CASE WHEN EXISTS ( SELECT")
		g.col()
		g.fix("FROM")
		g.table()
		g.fix(") THEN")
		g.kcol("kb1")
		g.fix("WHEN")
		g.kcol("kb2")
		g.fix("=")
		g.kcol("kb3")
		g.fix("THEN")
		g.kcol("kb4")
		g.fix("ELSE")
		g.kcol("kb5")
		g.fix("END")
	}
	g.fix("FROM")
	if has(fSchema) {
		g.schemaTable()
	} else {
		g.table()
	}
	if has(fTabAlias) {
		g.alias()
	}
	if has(fFrom2) {
		g.fix(",")
		g.table()
		g.alias()
	}
	if has(fJoin) {
		g.fix("JOIN")
		g.table()
		g.fix("ON")
		g.col()
		g.fix("=")
		g.col()
	}
	if has(fJoinCase) { // multi-branch CASE inside a join condition
		g.fix("JOIN")
		g.table()
		g.fix("ON CASE WHEN")
		g.col()
		g.fix("=")
		g.kcol("kc1")
		g.fix("THEN")
		g.kcol("kc2")
		g.fix("WHEN")
		g.kcol("kc3")
		g.fix("=")
		g.kcol("kc4")
		g.fix("THEN")
		g.kcol("kc5")
		g.fix("ELSE")
		g.kcol("kc6")
		g.fix("END =")
		g.kcol("kc7")
	}
	if has(fLeftJoinAlias) {
		g.fix("LEFT JOIN")
		g.table()
		g.alias()
		g.fix("ON")
		g.qcol()
		g.fix("=")
		g.qcol()
	}
	if has(fJoinUsing) {
		g.fix("JOIN")
		g.schemaTable()
		g.fix("USING")
		g.fix("(")
		g.col()
		g.fix(")")
	}
	if has(fJoin2) {
		g.fix("INNER JOIN")
		g.table()
		g.fix("ON")
		g.col()
		g.fix("=")
		g.col()
		g.fix("JOIN")
		g.table()
		g.alias()
		g.fix("ON")
		g.col()
		g.fix("=")
		g.col()
	}
	if has(fCrossJoin) {
		g.fix("CROSS JOIN")
		g.table()
	}
	nw := 0
	where := func() {
		if nw == 0 {
			g.fix("WHERE")
		} else {
			g.fix("AND")
		}
		nw++
	}
	if has(fWhereStr) {
		where()
		g.col()
		g.fix("= 'zz'")
	}
	if has(fWhereFn) {
		where()
		g.fn("fb")
		g.fix("(")
		g.col()
		g.fix(")")
		g.fix("> 1")
	}
	if has(fWhereNull) {
		where()
		g.col()
		g.fix("IS NULL")
		g.fix("AND")
		g.qcol()
		g.fix("<> 1")
	}
	if has(fGroup) {
		g.fix("GROUP BY")
		g.col()
		g.fix("HAVING")
		g.fn("COUNT")
		g.fix("(")
		g.col()
		g.fix(")")
		g.fix("> 1")
	}
	if has(fOrder) {
		g.fix("ORDER BY")
		g.col()
		g.fix("DESC")
	}
	if has(fOrderFn) {
		if has(fOrder) {
			g.fix(",")
		} else {
			g.fix("ORDER BY")
		}
		g.fn("fb")
		g.fix("(")
		g.col()
		g.fix(")")
	}
	if has(fDistinctLimit) {
		g.fix("LIMIT 1")
	}
}

// nesting contexts around an inner query
const (
	cPlain = iota
	cDerived
	cExists
	cScalarCmp
	cInSub
	cCTE
	cUnion
	cJoinDerived
	cScalarItem
	cExcept
	cDerivedFirstOfTwo
	cDerivedThenJoin
	nSelCtx       // contexts up to here produce a query and can be nested
	cInsertSelect = iota - 1
	cUpdateExists
	cDeleteExists
	cUpdateSetSub
	cInsertWith
	nCtx
)

var vxCtxNames = []string{"plain", "derived", "exists", "scalarcmp", "insub", "cte", "union", "joinderived", "scalaritem", "except", "derivedfirstoftwo", "derivedthenjoin",
	"insertselect", "updateexists", "deleteexists", "updatesetsub", "insertwith"}

func (g *vxGen) ctx(c int, inner func()) {
	g.trail = append(g.trail, vxCtxNames[c])
	switch c {
	case cPlain:
		inner()
	case cDerived:
		g.fix("SELECT")
		g.col()
		g.fix("FROM")
		g.fix("(")
		inner()
		g.fix(")")
		g.alias()
	case cExists:
		g.fix("SELECT")
		g.col()
		g.fix("FROM")
		g.table()
		g.fix("WHERE")
		g.fix("EXISTS (")
		inner()
		g.fix(")")
	case cScalarCmp:
		g.fix("SELECT")
		g.col()
		g.fix("FROM")
		g.table()
		g.fix("WHERE")
		g.col()
		g.fix("= (")
		inner()
		g.fix(")")
	case cInSub:
		g.fix("SELECT")
		g.col()
		g.fix("FROM")
		g.table()
		g.fix("WHERE")
		g.col()
		g.fix("IN (")
		inner()
		g.fix(")")
	case cCTE:
		g.fix("WITH")
		g.alias() // the CTE's own name is a definition, not a table position
		g.fix("AS (")
		inner()
		g.fix(")")
		g.fix("SELECT")
		g.col()
		g.fix("FROM")
		g.table()
	case cUnion:
		g.fix("SELECT")
		g.col()
		g.fix("FROM")
		g.table()
		g.fix("UNION ALL")
		inner()
	case cExcept:
		inner()
		g.fix("EXCEPT")
		g.fix("SELECT")
		g.col()
		g.fix("FROM")
		g.table()
	case cJoinDerived:
		g.fix("SELECT")
		g.col()
		g.fix("FROM")
		g.table()
		g.fix("JOIN")
		g.fix("(")
		inner()
		g.fix(")")
		g.alias()
		g.fix("ON")
		g.col()
		g.fix("=")
		g.col()
	case cDerivedFirstOfTwo:
		g.fix("SELECT")
		g.col()
		g.fix("FROM")
		g.fix("(")
		inner()
		g.fix(")")
		g.alias()
		g.fix(",")
		g.table()
		g.fix(",")
		g.fix("(")
		g.fix("SELECT")
		g.col()
		g.fix("FROM")
		g.schemaTable()
		g.fix(")")
		g.alias()
	case cDerivedThenJoin:
		g.fix("SELECT")
		g.col()
		g.fix("FROM")
		g.fix("(")
		inner()
		g.fix(")")
		g.alias()
		g.fix("JOIN")
		g.table()
		g.fix("ON")
		g.col()
		g.fix("=")
		g.col()
	case cScalarItem:
		g.fix("SELECT")
		g.fix("(")
		inner()
		g.fix(")")
		g.fix("FROM")
		g.table()
	case cInsertSelect:
		g.fix("INSERT INTO")
		g.table()
		g.fix("(")
		g.col()
		g.fix(")")
		inner()
	case cUpdateExists:
		g.fix("UPDATE")
		g.table()
		g.fix("SET")
		g.col()
		g.fix("= 1")
		g.fix("WHERE")
		g.fix("EXISTS (")
		inner()
		g.fix(")")
	case cDeleteExists:
		g.fix("DELETE FROM")
		g.table()
		g.fix("WHERE")
		g.fix("EXISTS (")
		inner()
		g.fix(")")
	case cUpdateSetSub:
		g.fix("UPDATE")
		g.schemaTable()
		g.fix("SET")
		g.col()
		g.fix("= (")
		inner()
		g.fix(")")
	case cInsertWith:
		g.fix("WITH")
		g.alias()
		g.fix("AS (")
		inner()
		g.fix(")")
		g.fix("INSERT INTO")
		g.table()
		g.fix("(")
		g.col()
		g.fix(")")
		g.fix("SELECT")
		g.col()
		g.fix("FROM")
		g.table()
	}
}

// statements without an inner query
const nDML = 7

func (g *vxGen) dml(k int) {
	switch k {
	case 0:
		g.trail = append(g.trail, "insert-values")
		g.fix("INSERT INTO")
		g.schemaTable()
		g.fix("(")
		g.col()
		g.fix(",")
		g.col()
		g.fix(")")
		g.fix("VALUES (")
		g.fix("1")
		g.fix(",")
		g.fn("fa")
		g.fix("(")
		g.fix("2")
		g.fix(")")
		g.fix(")")
	case 1:
		g.trail = append(g.trail, "update")
		g.fix("UPDATE")
		g.table()
		g.fix("SET")
		g.col()
		g.fix("=")
		g.col()
		g.fix("+ 1")
		g.fix(",")
		g.col()
		g.fix("=")
		g.fn("fa")
		g.fix("(")
		g.col()
		g.fix(")")
		g.fix("WHERE")
		g.col()
		g.fix("= 'zz'")
	case 2:
		g.trail = append(g.trail, "delete")
		g.fix("DELETE FROM")
		g.schemaTable()
		g.fix("WHERE")
		g.fn("fb")
		g.fix("(")
		g.col()
		g.fix(")")
		g.fix("> 1")
	case 3:
		g.trail = append(g.trail, "merge")
		g.fix("MERGE INTO")
		g.table()
		g.alias()
		g.fix("USING")
		g.table()
		g.alias()
		g.fix("ON")
		g.qcol()
		g.fix("=")
		g.qcol()
		g.fix("WHEN MATCHED THEN UPDATE SET")
		g.col()
		g.fix("=")
		g.qcol()
		g.fix("WHEN NOT MATCHED THEN INSERT (")
		g.col()
		g.fix(")")
		g.fix("VALUES (")
		g.qcol()
		g.fix(")")
	case 4:
		g.trail = append(g.trail, "merge-delete")
		g.fix("MERGE INTO")
		g.schemaTable()
		g.fix("USING")
		g.schemaTable()
		g.fix("ON")
		g.col()
		g.fix("=")
		g.col()
		g.fix("WHEN MATCHED THEN DELETE")
	case 5:
		g.trail = append(g.trail, "insert-returning")
		g.fix("INSERT INTO")
		g.table()
		g.fix("(")
		g.col()
		g.fix(")")
		g.fix("VALUES ( 1 )")
		g.fix("RETURNING")
		g.col()
	case 6:
		g.trail = append(g.trail, "insert-on-conflict")
		g.fix("INSERT INTO")
		g.table()
		g.fix("(")
		g.col()
		g.fix(")")
		g.fix("VALUES ( 1 )")
		g.fix("ON CONFLICT (")
		g.col()
		g.fix(")")
		g.fix("DO UPDATE SET")
		g.col()
		g.fix("=")
		g.col()
	}
}

// ---- oracle ---------------------------------------------------------------------------------

func vxHasStr(set []string, e string) bool {
	r := false
	for _, x := range set {
		r = vx.Or(r, x == e)
	}
	return r
}

func vxHasQN(set []QualifiedName, e QualifiedName) bool {
	r := false
	for _, x := range set {
		r = vx.Or(r, x == e)
	}
	return r
}

func (g *vxGen) check() {
	toks := append(g.toks, parser.VxEOF)
	for _, s := range g.trail {
		vx.Note("shape " + s)
	}
	parser.VxNoteToks(g.toks)
	tree, err := parser.NewParser().Parse(toks)
	if err != nil {
		vx.Notef("rejected: %v", err)
		vx.Assert("C15.seen_rejected", true) // counts rejected templates in asserts_reached
		return                               // only parsed statements are in the claim
	}
	vx.Assert("C15.seen_parsed", true)
	md := ExtractMetadata(tree)

	// what the generator placed
	var wantT, wantTFull, wantC, wantF []string
	var wantTQ, wantCQ []QualifiedName
	for _, t := range g.tabs {
		wantT = append(wantT, t.n)
		if t.q != "" {
			wantTFull = append(wantTFull, t.q+"."+t.n)
		} else {
			wantTFull = append(wantTFull, t.n)
		}
		wantTQ = append(wantTQ, QualifiedName{Schema: t.q, Name: t.n})
	}
	for _, c := range g.cols {
		wantC = append(wantC, c.n)
		wantCQ = append(wantCQ, QualifiedName{Table: c.q, Name: c.n})
	}
	wantF = g.funcs

	// tables (plain variant: the name as written, with or without its qualifier)
	for a, e := range md.Tables {
		vx.Assertf("C15.tables_no_extra", vx.Or(vxHasStr(wantTFull, e), vxHasStr(wantT, e)), "ExtractTables returns %q, which is in no table position (placed: %v)", e, wantTFull)
		for b := a + 1; b < len(md.Tables); b++ {
			vx.Assertf("C15.tables_no_dup", e != md.Tables[b], "ExtractTables returns %q twice", e)
		}
	}
	for k := range wantT {
		vx.Assertf("C15.tables_complete", vx.Or(vxHasStr(md.Tables, wantTFull[k]), vxHasStr(md.Tables, wantT[k])), "table %q is written in a table position but ExtractTables returns %v", wantTFull[k], md.Tables)
	}
	for a, e := range md.TablesQualified {
		vx.Assertf("C15.qtables_no_extra", vxHasQN(wantTQ, e), "ExtractTablesQualified returns %v, which is in no table position (placed: %v)", e, wantTQ)
		for b := a + 1; b < len(md.TablesQualified); b++ {
			vx.Assertf("C15.qtables_no_dup", e != md.TablesQualified[b], "ExtractTablesQualified returns %v twice", e)
		}
	}
	for _, w := range wantTQ {
		vx.Assertf("C15.qtables_complete", vxHasQN(md.TablesQualified, w), "table %v is written in a table position but ExtractTablesQualified returns %v", w, md.TablesQualified)
	}

	// columns
	for a, e := range md.Columns {
		vx.Assertf("C15.columns_no_extra", vxHasStr(wantC, e), "ExtractColumns returns %q, which is no column reference (placed: %v)", e, wantC)
		for b := a + 1; b < len(md.Columns); b++ {
			vx.Assertf("C15.columns_no_dup", e != md.Columns[b], "ExtractColumns returns %q twice", e)
		}
	}
	for _, w := range wantC {
		vx.Assertf("C15.columns_complete", vxHasStr(md.Columns, w), "column %q is referenced but ExtractColumns returns %v", w, md.Columns)
	}
	for a, e := range md.ColumnsQualified {
		vx.Assertf("C15.qcolumns_no_extra", vxHasQN(wantCQ, e), "ExtractColumnsQualified returns %v, which is no column reference (placed: %v)", e, wantCQ)
		for b := a + 1; b < len(md.ColumnsQualified); b++ {
			vx.Assertf("C15.qcolumns_no_dup", e != md.ColumnsQualified[b], "ExtractColumnsQualified returns %v twice", e)
		}
	}
	for _, w := range wantCQ {
		vx.Assertf("C15.qcolumns_complete", vxHasQN(md.ColumnsQualified, w), "column %v is referenced but ExtractColumnsQualified returns %v", w, md.ColumnsQualified)
	}

	// functions
	for a, e := range md.Functions {
		vx.Assertf("C15.functions_no_extra", vxHasStr(wantF, e), "ExtractFunctions returns %q, which is no function call (placed: %v)", e, wantF)
		for b := a + 1; b < len(md.Functions); b++ {
			vx.Assertf("C15.functions_no_dup", e != md.Functions[b], "ExtractFunctions returns %q twice", e)
		}
	}
	for _, w := range wantF {
		vx.Assertf("C15.functions_complete", vxHasStr(md.Functions, w), "function %q is called but ExtractFunctions returns %v", w, md.Functions)
	}
}

// ---- entry points ---------------------------------------------------------------------------

// one SELECT, every pair of clause features
func VxC15_Pair() {
	g := &vxGen{}
	f1 := vx.Choice(nFeat)
	f2 := vx.Choice(nFeat)
	vx.Assume(f1 <= f2)
	g.sel(f1, f2)
	g.check()
}

// every nesting context around a SELECT with one clause feature
func VxC15_Ctx1() {
	g := &vxGen{}
	c := vx.Choice(nCtx)
	f1 := vx.Choice(nFeatCtx)
	g.ctx(c, func() { g.sel(f1, fNone) })
	g.check()
}

// two nesting levels around a plain SELECT
func VxC15_Ctx2() {
	g := &vxGen{}
	c1 := vx.Choice(nCtx)
	c2 := vx.Choice(nSelCtx)
	g.ctx(c1, func() { g.ctx(c2, func() { g.sel(fNone, fNone) }) })
	g.check()
}

// every nesting context around a SELECT with two clause features
func VxC15_CtxPair() {
	g := &vxGen{}
	c := vx.Choice(nCtx)
	f1 := vx.Choice(nFeatCtx)
	f2 := vx.Choice(nFeatCtx)
	vx.Assume(f1 <= f2)
	g.ctx(c, func() { g.sel(f1, f2) })
	g.check()
}

// statements without an inner query
func VxC15_DML() {
	g := &vxGen{}
	g.dml(vx.Choice(nDML))
	g.check()
}

// deep nesting: k levels of derived tables (k symbolic, up to the parser's own limit region), a
// distinct table at every level, schema-qualified on even levels, one function and column per level
func VxC15_Deep() {
	k := vx.Choice(60)
	g := &vxGen{}
	for lvl := 0; lvl < k; lvl++ {
		g.fix("SELECT")
		g.fn("fa")
		g.fix("(")
		g.cols = append(g.cols, vxQN{"", "c" + vxItoa(lvl)})
		g.toks = append(g.toks, token.Token{Type: vxIdentType, Literal: "c" + vxItoa(lvl)})
		g.fix(")")
		g.fix("FROM")
		g.fix("(")
	}
	g.fix("SELECT")
	g.cols = append(g.cols, vxQN{"", "cz"})
	g.toks = append(g.toks, token.Token{Type: vxIdentType, Literal: "cz"})
	g.fix("FROM")
	g.tabs = append(g.tabs, vxQN{"", "tz"})
	g.toks = append(g.toks, token.Token{Type: vxIdentType, Literal: "tz"})
	for lvl := k - 1; lvl >= 0; lvl-- {
		g.fix(")")
		g.toks = append(g.toks, token.Token{Type: vxIdentType, Literal: "x" + vxItoa(lvl)})
		// a sibling table at this level
		g.fix(",")
		name := "t" + vxItoa(lvl)
		if lvl%2 == 0 {
			g.fix("sa")
			g.fix(".")
			g.tabs = append(g.tabs, vxQN{"sa", name})
		} else {
			g.tabs = append(g.tabs, vxQN{"", name})
		}
		g.toks = append(g.toks, token.Token{Type: vxIdentType, Literal: name})
	}
	g.trail = append(g.trail, "deep["+vxItoa(k)+"]")
	g.check()
}

func vxItoa(n int) string {
	if n == 0 {
		return "0"
	}
	s := ""
	for n > 0 {
		s = string(rune('0'+n%10)) + s
		n /= 10
	}
	return s
}
