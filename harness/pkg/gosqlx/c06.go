package gosqlx

// C06: serialise -> re-parse gives the same tree; formatting is stable.
// (1) expression shapes: a symbolic token window is parsed by the real parser, the tree is
//     serialised with AST.SQL(), the text goes through the real tokenizer and parser again and
//     the two trees are compared structurally (keyword / operator words case-insensitively).
// (2) statement templates with symbolic two-letter identifiers (reserved words are found by
//     the solver through the real keyword lookup) and symbolic format options.

import (
	"strings"

	"github.com/ajitpratap0/GoSQLX/pkg/sql/ast"
	"github.com/ajitpratap0/GoSQLX/pkg/sql/parser"
	"github.com/ajitpratap0/GoSQLX/pkg/sql/token"
	vx "github.com/ajitpratap0/GoSQLX/zzvx"
)

// vxNormEq compares two trees modulo letter case of keyword/operator words: the trees are
// dumped canonically and compared case-insensitively on the dump (identifiers in the
// templates are lower-case, so folding cannot hide a real difference).
func vxNormEq(a, b *ast.AST) bool {
	if a == nil || b == nil {
		return a == b
	}
	if len(a.Statements) != len(b.Statements) {
		return false
	}
	for k := range a.Statements {
		if !strings.EqualFold(vx.Dump(a.Statements[k]), vx.Dump(b.Statements[k])) {
			return false
		}
	}
	return true
}

func vxExprRoundTrip(tab *parser.VxTable, maxK int) {
	win := tab.Toks(maxK)
	toks := append([]token.Token{}, parser.VxFixed("SELECT a FROM t WHERE")...)
	toks = append(toks, win...)
	toks = append(toks, parser.VxEOF)
	parser.VxNoteToks(win)
	tree1, err := parser.NewParser().Parse(toks)
	if err != nil {
		return // only accepted inputs are in the claim
	}
	text := vx.Conc(tree1.SQL()) // the serialised text, one concrete rendering per path
	vx.Notef("sql=%q", text)
	tree2, err2 := Parse(text)
	vx.Assertf("C06.reparses", err2 == nil, "serialised text %q is rejected: %v", text, err2)
	if err2 != nil {
		return
	}
	vx.Assertf("C06.same_tree", vxNormEq(tree1, tree2), "re-parsing %q gives a different tree: %s vs %s", text, vx.Dump(tree1.Statements[0]), vx.Dump(tree2.Statements[0]))
	text2 := tree2.SQL()
	vx.Assertf("C06.sql_stable", text2 == text, "serialising the re-parsed tree gives %q, not %q", text2, text)
}

func VxC06_Expr3()     { vxExprRoundTrip(parser.VxC03OpsTable, 3) }
func VxC06_Expr4()     { vxExprRoundTrip(parser.VxC03OpsTable, 4) }
func VxC06_Expr5()     { vxExprRoundTrip(parser.VxC03OpsTable, 5) }
func VxC06_ExprFull3() { vxExprRoundTrip(parser.VxC03Table, 3) }
func VxC06_ExprFull4() { vxExprRoundTrip(parser.VxC03Table, 4) }

// statement templates: %N is replaced by a symbolic two-letter lower-case name, %Q by the same
// kind of name in double quotes
var vxC06Templates = []string{
	"SELECT %N FROM %N",
	"SELECT %Q FROM %Q",
	"SELECT %N AS %N FROM t",
	"SELECT a FROM t %N",
	"SELECT a FROM t JOIN u ON t.%N = u.%N",
	"SELECT a FROM t JOIN u USING ( %N )",
	"SELECT a FROM t WHERE a IS NOT NULL",
	"SELECT a FROM t WHERE NOT EXISTS ( SELECT 1 FROM u )",
	"SELECT a FROM t WHERE a IN ( 1 , 2 ) AND b BETWEEN 1 AND 2 OR c LIKE 'x'",
	"SELECT a FROM t WHERE ( a OR b ) AND c",
	"SELECT a , COUNT ( * ) FROM t GROUP BY a HAVING COUNT ( * ) > 1 ORDER BY a DESC NULLS LAST LIMIT 5 OFFSET 2",
	"SELECT SUM ( a ) OVER ( PARTITION BY b ORDER BY c ROWS BETWEEN 2 PRECEDING AND CURRENT ROW ) FROM t",
	"WITH %N AS ( SELECT a FROM t ) SELECT a FROM %N",
	"SELECT a FROM t UNION ALL SELECT b FROM u",
	"SELECT CASE WHEN a > 1 THEN 'x' ELSE 'y' END FROM t",
	"SELECT CAST ( a AS INT ) FROM t",
	"SELECT DISTINCT a FROM t",
	"INSERT INTO %N ( a , b ) VALUES ( 1 , 'x' )",
	"UPDATE %N SET a = 1 WHERE b = 2",
	"DELETE FROM %N WHERE a = 1",
	"SELECT a FROM ( SELECT b FROM u ) AS %N",
	"SELECT - a , a - - 1 FROM t",
	"SELECT a FROM t FOR UPDATE",
	"SELECT a FROM t WHERE b = '%S'",
	"INSERT INTO t ( a ) VALUES ( '%S' )",
	"SELECT DISTINCT ON ( a ) a , b FROM t",
	"SELECT a FROM t LEFT JOIN u ON t.a = u.a CROSS JOIN v",
	"SELECT a FROM t WHERE a NOT IN ( 1 , 2 ) AND b NOT BETWEEN 1 AND 2 AND c NOT LIKE 'x'",
	"SELECT a FROM t WHERE a IN ( SELECT b FROM u )",
	"SELECT COUNT ( DISTINCT a ) FROM t",
	"SELECT a FROM t ORDER BY a ASC , b DESC NULLS FIRST",
	"INSERT INTO t ( a ) SELECT b FROM u",
	"INSERT INTO t ( a ) VALUES ( 1 ) , ( 2 )",
	"UPDATE t SET a = 1 , b = 'x'",
	"DELETE FROM t",
	"SELECT %I FROM t",
	"SELECT a FROM %I AS x",
	"SELECT a FROM t WHERE a NOT LIKE 'x%' AND b NOT ILIKE 'y' AND c NOT IN ( 1 ) AND d NOT BETWEEN 1 AND 2",
	"SELECT a FROM t WHERE a LIKE 'x' ESCAPE '!' OR b ILIKE 'y'",
}

// quoted-identifier bodies: two symbolic bytes over characters that do and do not need quoting
var vxIdentAlphabet = []int{'a', '#', '-', ' ', '$', '(', '1', '_', '.'}

func vxIdentBody() string {
	b := make([]byte, 2)
	for k := range b {
		b[k] = byte(vx.PickInt(vx.Small(len(vxIdentAlphabet)), vxIdentAlphabet))
	}
	return string(b)
}

// string bodies: two symbolic bytes over the alphabet of the escaping rules
var vxStrAlphabet = []int{'a', '\'', '\\', 'n', '"', '%', '_', ' '}

func vxStrBody() string {
	b := make([]byte, 2)
	for k := range b {
		b[k] = byte(vx.PickInt(vx.Small(len(vxStrAlphabet)), vxStrAlphabet))
	}
	return string(b)
}

func vxName() string {
	b := vx.Bytes(2)
	for _, c := range b {
		vx.Assume(c-'a' < 26)
	}
	return string(b)
}

// vxLowerKeywords lower-cases a template except its %X placeholders.
func vxLowerKeywords(tpl string) string {
	out := []byte(strings.ToLower(tpl))
	for k := 0; k+1 < len(tpl); k++ {
		if tpl[k] == '%' && tpl[k+1] >= 'A' && tpl[k+1] <= 'Z' {
			out[k+1] = tpl[k+1]
		}
	}
	return string(out)
}

func vxInstantiate(tpl string) string {
	out := ""
	for k := 0; k < len(tpl); k++ {
		if tpl[k] == '%' && k+1 < len(tpl) {
			switch tpl[k+1] {
			case 'N':
				out += vxName()
			case 'Q':
				out += "\"" + vxName() + "\""
			case 'S':
				out += vxStrBody()
			case 'I':
				out += "\"" + vxIdentBody() + "\""
			}
			k++
			continue
		}
		out += string(tpl[k])
	}
	return out
}

func VxC06_Templates() {
	tpl := vxC06Templates[vx.Choice(len(vxC06Templates))]
	if vx.Bool() {
		tpl = vxLowerKeywords(tpl) // keywords as a user may type them: the tree keeps some of them in source case
	}
	sql := vxInstantiate(tpl)
	vx.Notef("template=%q sql=%q", tpl, sql)
	tree1, err := Parse(sql)
	if err != nil {
		return // e.g. an unquoted name that happens to be a reserved word: not an accepted input
	}
	text := tree1.SQL()
	vx.Notef("serialised=%q", text)
	tree2, err2 := Parse(text)
	vx.Assertf("C06.t_reparses", err2 == nil, "serialised text %q of accepted input %q is rejected: %v", text, sql, err2)
	if err2 != nil {
		return
	}
	vx.Assertf("C06.t_same_tree", vxNormEq(tree1, tree2), "re-parsing %q (from %q) gives a different tree", text, sql)
}

var vxFormatTexts = []string{
	"select a, b from t where a = 1 and b in (1,2) order by a desc limit 3",
	"SELECT a FROM t JOIN u ON t.a = u.a WHERE x IS NULL GROUP BY a HAVING COUNT(*) > 1",
	"insert into t (a,b) values (1,'x')",
	"update t set a = 1 where b = 2",
	"delete from t where a = 1",
	"with c as (select a from t) select a from c union all select b from u",
	"select a from t where b = 'C:\\\\new\\\\table'",
	"select a from t where b = 'it''s'",
}

// every statement template with fixed names, as Format input
func vxAllFormatTexts() []string {
	out := append([]string{}, vxFormatTexts...)
	for _, tpl := range vxC06Templates {
		t := ""
		for k := 0; k < len(tpl); k++ {
			if tpl[k] == '%' && k+1 < len(tpl) {
				switch tpl[k+1] {
				case 'N':
					t += "nm"
				case 'Q':
					t += "\"nm\""
				case 'S':
					t += "s1"
				case 'I':
					t += "\"#x\""
				}
				k++
				continue
			}
			t += string(tpl[k])
		}
		out = append(out, t)
		out = append(out, strings.ToLower(t))
	}
	return out
}

var vxFormatAll = vxAllFormatTexts()

func VxC06_Format() {
	sql := vxFormatAll[vx.Choice(len(vxFormatAll))]
	opts := DefaultFormatOptions()
	opts.IndentSize = vx.Choice(5)
	opts.UppercaseKeywords = vx.Bool()
	opts.AddSemicolon = vx.Bool()
	opts.SingleLineLimit = 20 + 40*vx.Choice(3)
	vx.Notef("sql=%q indent=%d upper=%v semi=%v limit=%d", sql, opts.IndentSize, opts.UppercaseKeywords, opts.AddSemicolon, opts.SingleLineLimit)
	f1, err := Format(sql, opts)
	if err != nil {
		if _, perr := Parse(sql); perr != nil {
			return // the template itself is not an accepted input
		}
		vx.Assertf("C06.format_accepts", false, "Format rejects accepted input %q: %v", sql, err)
		return
	}
	f2, err := Format(f1, opts)
	vx.Assertf("C06.format_reparses", err == nil, "formatted text %q is rejected: %v", f1, err)
	if err != nil {
		return
	}
	vx.Assertf("C06.format_idempotent", f2 == f1, "formatting twice differs: %q then %q", f1, f2)
	t1, _ := Parse(sql)
	t2, err := Parse(f1)
	vx.Assertf("C06.format_same_tree", err == nil && vxNormEq(t1, t2), "formatted text %q parses to a different tree than %q", f1, sql)
}
