package transform

// C09 (transform rules): one rule value applied to two trees does not make them share nodes:
// releasing the first tree never writes into the second, whose text stays what it was.

import (
	"github.com/ajitpratap0/GoSQLX/pkg/sql/ast"
	vx "github.com/ajitpratap0/GoSQLX/zzvx"
)

var vxRuleNames = []string{"AddWhereFromSQL", "AddJoinFromSQL", "SetLimit", "SetOffset", "AddOrderBy", "ReplaceTable", "AddTableAlias",
	"QualifyColumns", "RemoveColumn", "ReplaceColumn", "AddSelectStar", "RemoveWhere", "RemoveLimit", "RemoveOrderBy", "RemoveJoin"}

func vxRule(k int) Rule {
	switch k {
	case 0:
		return AddWhereFromSQL("tenant_id = 42")
	case 1:
		return AddJoinFromSQL("LEFT JOIN u ON t.a = u.a")
	case 2:
		return SetLimit(5)
	case 3:
		return SetOffset(2)
	case 4:
		return AddOrderBy("a", true)
	case 5:
		return ReplaceTable("t", "v")
	case 6:
		return AddTableAlias("t", "x")
	case 7:
		return QualifyColumns("t")
	case 8:
		return RemoveColumn("b")
	case 9:
		return ReplaceColumn("a", "c")
	case 10:
		return AddSelectStar()
	case 11:
		return RemoveWhere()
	case 12:
		return RemoveLimit()
	case 13:
		return RemoveOrderBy()
	default:
		return RemoveJoin("u")
	}
}

var vxTransformTexts = []string{
	"SELECT a, b FROM t WHERE a = 1 ORDER BY b LIMIT 3",
	"SELECT a FROM t JOIN u ON t.a = u.a",
	"UPDATE t SET a = 1 WHERE b = 2",
	"DELETE FROM t WHERE a = 1",
}

func VxC09_Transform() {
	k1 := vx.Choice(len(vxRuleNames))
	k2 := vx.Choice(len(vxRuleNames))
	t1 := vxTransformTexts[vx.Choice(len(vxTransformTexts))]
	t2 := vxTransformTexts[vx.Choice(len(vxTransformTexts))]
	vx.Notef("rules=%s,%s on %q and %q", vxRuleNames[k1], vxRuleNames[k2], t1, t2)
	tree1, err1 := ParseSQL(t1)
	tree2, err2 := ParseSQL(t2)
	if err1 != nil || err2 != nil {
		return
	}
	r1, r2 := vxRule(k1), vxRule(k2) // the same rule values serve both trees
	e1 := Apply(tree1.Statements[0], r1, r2)
	e2 := Apply(tree2.Statements[0], r1, r2)
	vx.Notef("applied: %v / %v", e1 == nil, e2 == nil)
	before := FormatSQL(tree2.Statements[0])
	vx.Freeze(tree2, "C09.frozen second tree while the first is released")
	ast.ReleaseAST(tree1)
	vx.Unfreeze()
	after := FormatSQL(tree2.Statements[0])
	vx.Assertf("C09.transform_independent", after == before, "releasing the first tree changed the second: %q -> %q", before, after)
	// and the pools hand out fresh nodes afterwards: a new parse does not disturb the second tree either
	tree3, err3 := ParseSQL(t1)
	if err3 == nil {
		again := FormatSQL(tree2.Statements[0])
		vx.Assertf("C09.transform_independent", again == before, "a later parse changed the second tree: %q -> %q", before, again)
		ast.ReleaseAST(tree3)
	}
	ast.ReleaseAST(tree2)
}
