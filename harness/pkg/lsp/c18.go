package lsp

// C18 kernels: the document mirror (open / incremental change / full change / close) against a
// reference edit function written from the protocol's position rules, with edit positions as
// unconstrained integers; and message framing (Content-Length parsing) on symbolic header bytes.

import (
	"bytes"
	"io"

	vx "github.com/ajitpratap0/GoSQLX/zzvx"
)

func vxText(maxN int, alphabet string) string {
	n := vx.Choice(maxN + 1)
	b := vx.Bytes(n)
	for _, c := range b {
		ok := false
		for k := 0; k < len(alphabet); k++ {
			ok = ok || c == alphabet[k]
		}
		vx.Assume(ok)
	}
	return string(b)
}

// refOffset: protocol rule for ASCII documents — a line past the end clamps to the end of the
// document, a character past the end of the line clamps to the line end.
func refOffset(content string, line, char int) int {
	off := 0
	cur := 0
	for cur < line {
		k := -1
		for j := off; j < len(content); j++ {
			if content[j] == '\n' {
				k = j
				break
			}
		}
		if k < 0 {
			return len(content) // line past the last line
		}
		off = k + 1
		cur++
	}
	end := off
	for end < len(content) && content[end] != '\n' {
		end++
	}
	if char > end-off {
		char = end - off
	}
	return off + char
}

func refApply(content string, sl, sc, el, ec int, text string) string {
	so, eo := refOffset(content, sl, sc), refOffset(content, el, ec)
	return content[:so] + text + content[eo:]
}

func vxMirror(maxN, nchanges int, alphabet string) { vxMirrorB(maxN, nchanges, alphabet, false) }

// vxMirrorB: with small, positions are symbolic in -1..3 (16-bit selectors) instead of unconstrained ints.
func vxMirrorB(maxN, nchanges int, alphabet string, small bool) {
	dm := NewDocumentManager()
	content := vxText(maxN, alphabet)
	dm.Open("u", "sql", 1, content)
	want := content
	vx.Notef("open %q", content)
	var changes []TextDocumentContentChangeEvent
	wellFormed := true
	for k := 0; k < nchanges; k++ {
		text := vxText(1, alphabet)
		if vx.Bool() {
			// full-document change
			changes = append(changes, TextDocumentContentChangeEvent{Text: text})
			want = text
			vx.Notef("change %d: full %q", k, text)
			continue
		}
		var sl, sc, el, ec int
		if small {
			sl, sc, el, ec = vx.Small(5)-1, vx.Small(5)-1, vx.Small(5)-1, vx.Small(5)-1
		} else {
			sl, sc, el, ec = vx.Int(), vx.Int(), vx.Int(), vx.Int()
		}
		vx.Notef("change %d: range %d:%d-%d:%d text %q", k, sl, sc, el, ec, text)
		changes = append(changes, TextDocumentContentChangeEvent{Range: &Range{Start: Position{Line: sl, Character: sc}, End: Position{Line: el, Character: ec}}, Text: text})
		// the protocol's positions are unsigned and ranges are ordered; anything else must only not crash
		if sl < 0 || sc < 0 || el < 0 || ec < 0 || sl > el || (sl == el && sc > ec) || sl > 1<<20 || el > 1<<20 {
			wellFormed = false
		}
		if wellFormed {
			want = refApply(want, sl, sc, el, ec, text)
		}
	}
	dm.Update("u", 2, changes) // must not panic for ANY positions (implicit assertion)
	got, ok := dm.GetContent("u")
	vx.Assert("C18.mirror_present", ok)
	if wellFormed {
		vx.Assertf("C18.mirror_content", got == want, "mirrored text %q, protocol says %q", got, want)
	}
	doc, _ := dm.Get("u")
	vx.Assertf("C18.mirror_version", doc != nil && doc.Version == 2, "version not updated")
	dm.Close("u")
	_, ok = dm.GetContent("u")
	vx.Assert("C18.mirror_closed", !ok)
}

func VxC18_Mirror1()  { vxMirror(3, 1, "a\n") }
func VxC18_Mirror2()  { vxMirrorB(2, 2, "a\n", true) }
func VxC18_Mirror2M() { vxMirrorB(3, 2, "a\n", true) }
func VxC18_Mirror1L() { vxMirror(5, 1, "a\n") }
func VxC18_Mirror2L() { vxMirror(4, 2, "ab\n") }

// framing: "Content-Length:" + symbolic value + blank line + body
func vxFraming(maxN int) {
	val := vxText(maxN, "0123456789-+ ")
	body := []byte(`{"jsonrpc":"2.0","method":"x"}`)
	in := append([]byte("Content-Length:"+val+"\r\n\r\n"), body...)
	vx.Notef("header value %q", val)
	s := NewServer(bytes.NewReader(in), io.Discard, nil)
	msg, err := s.readMessage() // must not panic whatever the header says (implicit assertion)
	if err == nil {
		vx.Assertf("C18.frame_length", len(msg) >= 1 && len(msg) <= len(body), "message of %d bytes from a %d byte body", len(msg), len(body))
		for k := range msg {
			vx.Assert("C18.frame_bytes", msg[k] == body[k])
		}
	}
}

func VxC18_Framing3() { vxFraming(3) }
func VxC18_Framing4() { vxFraming(4) }

// VxC18_Mirror2R: two RANGED edits in one notification (the second must be applied to the text
// produced by the first), positions symbolic in 0..3, over two concrete two-line documents.
func VxC18_Mirror2R() {
	docs := []string{"a\nb", "\nab", "ab\n"}
	texts := []string{"", "\n", "x"}
	content := docs[vx.Choice(len(docs))]
	dm := NewDocumentManager()
	dm.Open("u", "sql", 1, content)
	want := content
	vx.Notef("open %q", content)
	var changes []TextDocumentContentChangeEvent
	for k := 0; k < 2; k++ {
		text := texts[vx.Choice(len(texts))]
		sl, sc, dl, dc := vx.Small(4), vx.Small(4), vx.Small(2), vx.Small(3)
		el, ec := sl+dl, sc+dc // ordered by construction when on the same line
		if dl > 0 {
			ec = dc
		}
		vx.Notef("change %d: range %d:%d-%d:%d text %q", k, sl, sc, el, ec, text)
		changes = append(changes, TextDocumentContentChangeEvent{Range: &Range{Start: Position{Line: sl, Character: sc}, End: Position{Line: el, Character: ec}}, Text: text})
		want = refApply(want, sl, sc, el, ec, text)
	}
	dm.Update("u", 2, changes)
	got, _ := dm.GetContent("u")
	vx.Assertf("C18.mirror_content2", got == want, "mirrored text %q, protocol says %q", got, want)
}
