package lsp

// C18 conversations: histories of JSON-RPC messages are handed to Server.handleMessage (the
// step Run performs per frame; framing itself is covered by VxC18_Framing*). Each message is a
// symbolic choice of method/params template x id kind (none, number, string) x document text.
// Observed at the server's writer: frames are split on their Content-Length, bodies decoded.

import (
	"bytes"
	"encoding/json"
	"errors"
	"strconv"
	"strings"

	goerrors "github.com/ajitpratap0/GoSQLX/pkg/errors"
	"github.com/ajitpratap0/GoSQLX/pkg/gosqlx"
	vx "github.com/ajitpratap0/GoSQLX/zzvx"
)

const vxURI = "file:///a.sql"

var vxDocTexts = []string{"SELECT a FROM t", "SELEC a", "SELECT a FROM t;\nSELECT FROM", "", "SELECT a\nFROM t\nWHERE b = 'x", "-- see [1:7], line 1\nSELECT tags[1:2]\nFROM \"t"}

type vxTpl struct {
	method string
	params string // %T: a JSON string holding a document text
}

var vxTemplates = []vxTpl{
	{"initialize", `{"processId":1,"rootUri":"file:///w","capabilities":{}}`},
	{"initialized", `{}`},
	{"textDocument/didOpen", `{"textDocument":{"uri":"file:///a.sql","languageId":"sql","version":1,"text":%T}}`},
	{"textDocument/didChange", `{"textDocument":{"uri":"file:///a.sql","version":2},"contentChanges":[{"text":%T}]}`},
	{"textDocument/didChange", `{"textDocument":{"uri":"file:///a.sql","version":3},"contentChanges":[{"range":{"start":{"line":0,"character":0},"end":{"line":0,"character":5}},"text":%T}]}`},
	{"textDocument/didSave", `{"textDocument":{"uri":"file:///a.sql"}}`},
	{"textDocument/didClose", `{"textDocument":{"uri":"file:///a.sql"}}`},
	{"textDocument/hover", `{"textDocument":{"uri":"file:///a.sql"},"position":{"line":0,"character":2}}`},
	{"textDocument/completion", `{"textDocument":{"uri":"file:///a.sql"},"position":{"line":0,"character":3}}`},
	{"textDocument/formatting", `{"textDocument":{"uri":"file:///a.sql"},"options":{"tabSize":2,"insertSpaces":true}}`},
	{"textDocument/documentSymbol", `{"textDocument":{"uri":"file:///a.sql"}}`},
	{"textDocument/signatureHelp", `{"textDocument":{"uri":"file:///a.sql"},"position":{"line":0,"character":9}}`},
	{"textDocument/codeAction", `{"textDocument":{"uri":"file:///a.sql"},"range":{"start":{"line":0,"character":0},"end":{"line":0,"character":1}},"context":{"diagnostics":[]}}`},
	{"textDocument/hover", `[1,2]`},
	{"textDocument/hover", `{"textDocument":{"uri":"file:///nope.sql"},"position":{"line":-1,"character":99}}`},
	{"shutdown", ``},
	{"exit", ``},
	{"$/cancelRequest", `{"id":1}`},
	{"$/setTrace", `{"value":"off"}`},
	{"no/such/method", `{}`},
	{"", `{}`},
}

// raw messages that are not well-formed requests
var vxRawMessages = []string{
	`{"jsonrpc":"2.0","id":3,"method":`,
	`{"jsonrpc":"2.0","id":4,"method":7}`,
	`[]`,
	`"x"`,
	`{}`,
	`{"jsonrpc":"2.0","id":null,"method":"shutdown"}`,
}

type vxSent struct {
	raw     string
	hasID   bool
	idText  string // JSON text of the id
	method  string
	wellReq bool // decodes as a request object
}

var vxDocOnly = false                   // document notifications only (templates 2..6, no id)
var vxDocPick = []int{0, 1, 2, 3, 4, 5} // texts used by the document histories

func vxBuildMessage() vxSent {
	if vxDocOnly {
		t := vxTemplates[2+vx.Choice(5)]
		text := vxDocTexts[vxDocPick[vx.Choice(len(vxDocPick))]]
		tj, _ := json.Marshal(text)
		mj, _ := json.Marshal(t.method)
		return vxSent{method: t.method, wellReq: true, raw: `{"jsonrpc":"2.0","method":` + string(mj) + `,"params":` + strings.ReplaceAll(t.params, "%T", string(tj)) + "}"}
	}
	if vx.Bool() {
		r := vxRawMessages[vx.Choice(len(vxRawMessages))]
		s := vxSent{raw: r}
		switch r {
		case `{"jsonrpc":"2.0","id":4,"method":7}`:
			s.hasID, s.idText = true, "4" // the id can be recovered although the method has the wrong type
		}
		return s
	}
	t := vxTemplates[vx.Choice(len(vxTemplates))]
	text := vxDocTexts[vx.Choice(4)] // the multi-line tokenizer-error texts are explored by the document histories
	tj, _ := json.Marshal(text)
	params := strings.ReplaceAll(t.params, "%T", string(tj))
	s := vxSent{method: t.method, wellReq: true}
	m := `{"jsonrpc":"2.0"`
	switch vx.Choice(3) {
	case 1:
		m += `,"id":7`
		s.hasID, s.idText = true, "7"
	case 2:
		m += `,"id":"s1"`
		s.hasID, s.idText = true, `"s1"`
	}
	mj, _ := json.Marshal(t.method)
	m += `,"method":` + string(mj)
	if params != "" {
		m += `,"params":` + params
	}
	m += "}"
	s.raw = m
	return s
}

type vxFrame struct {
	JSONRPC string          `json:"jsonrpc"`
	ID      json.RawMessage `json:"id"`
	Method  string          `json:"method"`
	Params  json.RawMessage `json:"params"`
	Result  json.RawMessage `json:"result"`
	Error   *ResponseError  `json:"error"`
}

// vxSplitFrames splits the writer's bytes into frames, checking every header.
func vxSplitFrames(out []byte) (frames []vxFrame, ok bool) {
	for len(out) > 0 {
		const pre = "Content-Length: "
		if !bytes.HasPrefix(out, []byte(pre)) {
			return frames, false
		}
		k := bytes.Index(out, []byte("\r\n\r\n"))
		if k < 0 {
			return frames, false
		}
		n, err := strconv.Atoi(string(out[len(pre):k]))
		if err != nil || n < 0 || k+4+n > len(out) {
			return frames, false
		}
		body := out[k+4 : k+4+n]
		var f vxFrame
		if json.Unmarshal(body, &f) != nil {
			return frames, false
		}
		frames = append(frames, f)
		out = out[k+4+n:]
	}
	return frames, true
}

type vxDiagParams struct {
	URI         string       `json:"uri"`
	Version     int          `json:"version"`
	Diagnostics []Diagnostic `json:"diagnostics"`
}

func vxConversation(maxN int) {
	var in, out bytes.Buffer
	s := NewServer(&in, &out, nil)
	n := vx.Choice(maxN) + 1
	for step := 0; step < n; step++ {
		m := vxBuildMessage()
		vx.Notef("msg[%d] %s", step, m.raw)
		before := out.Len()
		s.handleMessage(json.RawMessage(m.raw))
		written := out.Bytes()[before:]
		frames, ok := vxSplitFrames(written)
		vx.Assertf("C18.frames_exact", ok, "after %s the output is not a sequence of exactly framed JSON bodies: %q", m.raw, written)
		if !ok {
			return
		}
		responses := 0
		for _, f := range frames {
			if f.Method == "window/showMessage" && m.wellReq && !strings.Contains(m.raw, "[1,2]") {
				vx.Assertf("C18.notification_processed", !bytes.Contains(f.Params, []byte("Failed to process")), "well-formed %s was not processed: %s", m.method, f.Params)
			}
			vx.Assertf("C18.jsonrpc_version", f.JSONRPC == "2.0", "frame without jsonrpc 2.0: %+v", f)
			if f.Method != "" {
				continue // a notification from the server
			}
			responses++
			vx.Assertf("C18.response_shape", (f.Error != nil) != (len(f.Result) > 0 && f.Error == nil) || f.Error == nil, "response with both result and error")
			if m.hasID {
				vx.Assertf("C18.response_id", string(f.ID) == m.idText, "request id %s answered with id %s", m.idText, f.ID)
			}
		}
		if m.hasID {
			vx.Assertf("C18.one_response", responses == 1, "request %s got %d responses", m.raw, responses)
		} else {
			vx.Assertf("C18.no_response_to_notification", responses == 0, "message without id %s got %d responses", m.raw, responses)
		}
		// a notification that opens or changes a document is followed by diagnostics for that document
		if !m.hasID && (m.method == "textDocument/didOpen" || m.method == "textDocument/didChange") {
			if _, open := s.Documents().GetContent(vxURI); open {
				published := false
				for _, f := range frames {
					if f.Method == "textDocument/publishDiagnostics" {
						var d vxDiagParams
						if json.Unmarshal(f.Params, &d) == nil && d.URI == vxURI {
							published = true
						}
					}
				}
				vx.Assertf("C18.diagnostics_published", published, "%s was processed but no diagnostics were published for the document", m.method)
			}
		}
		// diagnostics published in this step describe the mirror's current text
		for _, f := range frames {
			if f.Method != "textDocument/publishDiagnostics" {
				continue
			}
			var d vxDiagParams
			if json.Unmarshal(f.Params, &d) != nil {
				vx.Assertf("C18.diagnostics_decode", false, "publishDiagnostics params do not decode: %s", f.Params)
				continue
			}
			content, open := s.Documents().GetContent(d.URI)
			if !open {
				vx.Assertf("C18.diagnostics_closed_empty", len(d.Diagnostics) == 0, "diagnostics published for a closed document")
				continue
			}
			_, errs := gosqlx.ParseWithRecovery(content)
			vx.Assertf("C18.diagnostics_of_text", len(d.Diagnostics) == len(errs), "%d diagnostics published for %q, whose recovery parse reports %d errors", len(d.Diagnostics), content, len(errs))
			lines := strings.Count(content, "\n") + 1
			// anchored on the line the library's own error location names
			if len(d.Diagnostics) == len(errs) {
				for k, e := range errs {
					var se *goerrors.Error
					if errors.As(e, &se) && se.Location.Line > 0 {
						vx.Assertf("C18.diagnostic_line", d.Diagnostics[k].Range.Start.Line == se.Location.Line-1, "diagnostic %d is anchored on line %d, the error is located on line %d (0-based) of %q", k, d.Diagnostics[k].Range.Start.Line, se.Location.Line-1, content)
					}
				}
			}
			for _, dg := range d.Diagnostics {
				vx.Assertf("C18.diagnostic_in_document", dg.Range.Start.Line >= 0 && dg.Range.Start.Line < lines && dg.Range.Start.Character >= 0, "diagnostic at line %d of a %d-line document", dg.Range.Start.Line, lines)
			}
		}
	}
}

func VxC18_Conversation1() { vxConversation(1) }
func VxC18_Conversation2() { vxConversation(2) }
func VxC18_Conversation3() { vxConversation(3) }

// open / change (full and ranged) / save / close histories
func VxC18_DocHistory3() { vxDocOnly = true; vxConversation(3) }
func VxC18_DocHistory4() { vxDocOnly = true; vxDocPick = []int{0, 4, 5}; vxConversation(4) }
