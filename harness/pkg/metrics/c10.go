package metrics

// C10 (reduced claim): the metrics kernel under concurrency. Two or three goroutines each
// record one operation with a symbolic query size; under the engine every interleaving at
// sync/atomic granularity is a solver-visible choice. After quiescence the totals must be
// the true values.

import (
	"errors"
	"sync"
	"sync/atomic"

	vx "github.com/ajitpratap0/GoSQLX/zzvx"
)

func vxReset() {
	Enable()
	g := globalMetrics
	atomic.StoreInt64(&g.tokenizeOperations, 0)
	atomic.StoreInt64(&g.tokenizeErrors, 0)
	atomic.StoreInt64(&g.totalQueryBytes, 0)
	atomic.StoreInt64(&g.minQuerySize, -1)
	atomic.StoreInt64(&g.maxQuerySize, 0)
	atomic.StoreInt64(&g.parseOperations, 0)
	atomic.StoreInt64(&g.parseErrors, 0)
	atomic.StoreInt64(&g.statementsCreated, 0)
	atomic.StoreInt64(&g.poolGets, 0)
	atomic.StoreInt64(&g.poolPuts, 0)
	atomic.StoreInt64(&g.poolMisses, 0)
	g.errorsByType = map[string]int64{}
}

func vxSize() int { return vx.Small(1000) }

func vxMetrics(n int) {
	vxReset()
	sizes := make([]int, n)
	fails := make([]bool, n)
	for k := range sizes {
		sizes[k] = vxSize()
		fails[k] = vx.Bool()
	}
	vx.Notef("sizes=%v fails=%v", sizes, fails)
	var wg sync.WaitGroup
	for k := 0; k < n; k++ {
		wg.Add(1)
		k := k
		go func() {
			defer wg.Done()
			var err error
			if fails[k] {
				err = errors.New("boom")
			}
			RecordTokenization(1, sizes[k], err)
		}()
	}
	wg.Wait()
	g := globalMetrics
	sum, mn, mx, nerr := 0, sizes[0], sizes[0], 0
	for k, s := range sizes {
		sum += s
		if s < mn {
			mn = s
		}
		if s > mx {
			mx = s
		}
		if fails[k] {
			nerr++
		}
	}
	vx.Assertf("C10.operations", atomic.LoadInt64(&g.tokenizeOperations) == int64(n), "operations=%d after %d recordings", atomic.LoadInt64(&g.tokenizeOperations), n)
	vx.Assertf("C10.errors", atomic.LoadInt64(&g.tokenizeErrors) == int64(nerr), "errors=%d, %d recordings failed", atomic.LoadInt64(&g.tokenizeErrors), nerr)
	vx.Assertf("C10.bytes", atomic.LoadInt64(&g.totalQueryBytes) == int64(sum), "bytes=%d, true total %d", atomic.LoadInt64(&g.totalQueryBytes), sum)
	vx.Assertf("C10.min", atomic.LoadInt64(&g.minQuerySize) == int64(mn), "min=%d, true minimum %d", atomic.LoadInt64(&g.minQuerySize), mn)
	vx.Assertf("C10.max", atomic.LoadInt64(&g.maxQuerySize) == int64(mx), "max=%d, true maximum %d", atomic.LoadInt64(&g.maxQuerySize), mx)
	vx.Assertf("C10.error_map", g.errorsByType["boom"] == int64(nerr), "errorsByType[boom]=%d, expected %d", g.errorsByType["boom"], nerr)
}

func VxC10_Metrics2() { vxMetrics(2) }
func VxC10_Metrics3() { vxMetrics(3) }

// parse + pool counters
func VxC10_ParsePool2() {
	vxReset()
	a, b := vx.Small(100), vx.Small(100)
	var wg sync.WaitGroup
	wg.Add(2)
	go func() { defer wg.Done(); RecordParse(1, a, nil); RecordPoolGet(true); RecordPoolPut() }()
	go func() { defer wg.Done(); RecordParse(1, b, errors.New("x")); RecordPoolGet(false) }()
	wg.Wait()
	g := globalMetrics
	vx.Assertf("C10.parse_ops", atomic.LoadInt64(&g.parseOperations) == 2 && atomic.LoadInt64(&g.parseErrors) == 1, "parse operations/errors %d/%d", atomic.LoadInt64(&g.parseOperations), atomic.LoadInt64(&g.parseErrors))
	vx.Assertf("C10.statements", atomic.LoadInt64(&g.statementsCreated) == int64(a+b), "statements=%d, true total %d", atomic.LoadInt64(&g.statementsCreated), a+b)
	vx.Assertf("C10.pool", atomic.LoadInt64(&g.poolGets) == 2 && atomic.LoadInt64(&g.poolPuts) == 1 && atomic.LoadInt64(&g.poolMisses) == 1, "pool gets/puts/misses %d/%d/%d", atomic.LoadInt64(&g.poolGets), atomic.LoadInt64(&g.poolPuts), atomic.LoadInt64(&g.poolMisses))
}
