package security

// C16: injection findings are context-closed, layout/case-invariant and self-consistent.
// Trees come from the real parser (gosqlx.Parse) on SQL text assembled from a payload and
// a position template; the spelling of function names (letter case), the literal contents of
// tautologies, the redundant parentheses and the minimum severity are symbolic.

import (
	"strings"

	"github.com/ajitpratap0/GoSQLX/pkg/gosqlx"
	vx "github.com/ajitpratap0/GoSQLX/zzvx"
)

type vxPayload struct {
	name     string
	pattern  PatternType
	severity Severity
	build    func() string // SQL text of the payload expression (may contain symbolic bytes)
}

// vxCased spells word in a symbolic letter case: the first two letters are symbolic bytes
// (upper or lower, decided by the solver), the remaining letters follow one of three concrete
// styles (UPPER, lower, aLtErNaTiNg). (The parser's keyword conversion branches per letter, so
// making every letter symbolic would cost 2^len paths for nothing.)
var vxFixedCase = false // the operand harness keeps function names as written (case is VxC16_Closure's subject)

func vxCased(word string) string {
	if vxFixedCase {
		return word
	}
	style := vx.Choice(3)
	b := []byte(word)
	n := 0
	for k, c := range b {
		if c < 'A' || c > 'Z' {
			continue
		}
		n++
		switch {
		case n <= 2:
			x := vx.Byte()
			vx.Assume(x|0x20 == c|0x20) // upper or lower case of the same letter (no short-circuit: one path)
			b[k] = x
		case style == 1, style == 2 && n%2 == 0:
			b[k] = c + 32
		}
	}
	return string(b)
}

// vxAlnum2 is a symbolic two-letter literal body.
func vxAlnum2() string {
	b := vx.Bytes(2)
	for _, c := range b {
		vx.Assume(c-'a' < 26) // a lower-case letter (single unsigned comparison: one path)
	}
	return string(b)
}

var vxPayloads = []vxPayload{
	{"tautology-number", PatternTautology, SeverityCritical, func() string { return "1 = 1" }},
	{"tautology-string", PatternTautology, SeverityCritical, func() string { s := vxAlnum2(); return "'" + s + "' = '" + s + "'" }},
	{"tautology-ident", PatternTautology, SeverityCritical, func() string { return "a = a" }},
	{"sleep", PatternTimeBased, SeverityHigh, func() string { return vxCased("SLEEP") + " ( 5 ) > 0" }},
	{"pg_sleep", PatternTimeBased, SeverityHigh, func() string { return vxCased("PG_SLEEP") + " ( 5 ) > 0" }},
	{"benchmark-nested", PatternOutOfBand, SeverityCritical, func() string {
		return vxCased("BENCHMARK") + " ( 1000000 , " + vxCased("LOAD_FILE") + " ( '/etc/passwd' ) ) > 0"
	}},
	{"load_file", PatternOutOfBand, SeverityCritical, func() string { return vxCased("LOAD_FILE") + " ( 'x' ) > 0" }},
}

type vxPosition struct {
	name string
	wrap func(p string) string
}

// positions at which the unchanged scanner finds a payload (asserted) ...
var vxPositions = []vxPosition{
	{"where", func(p string) string { return "SELECT a FROM t WHERE " + p }},
	{"where-paren", func(p string) string { return "SELECT a FROM t WHERE ( ( " + p + " ) )" }},
	{"and-operand", func(p string) string { return "SELECT a FROM t WHERE b = 2 AND " + p }},
	{"or-operand", func(p string) string { return "SELECT a FROM t WHERE b = 2 OR " + p }},
	{"not-operand", func(p string) string { return "SELECT a FROM t WHERE NOT ( " + p + " )" }},
	{"having", func(p string) string { return "SELECT a FROM t GROUP BY a HAVING " + p }},
	{"update-where", func(p string) string { return "UPDATE t SET a = 1 WHERE " + p }},
	{"delete-where", func(p string) string { return "DELETE FROM t WHERE " + p }},
	{"union-arm", func(p string) string { return "SELECT a FROM t UNION SELECT b FROM u WHERE " + p }},
	{"layout", func(p string) string { return "select a\n\tfrom t -- c\n where /* x */ " + p }},
}

// ... and positions of the property's list at which the scanner of the pinned tree is blind
// (recorded as a known finding; kept in the harness so a repair is noticed).
var vxBlindPositions = []vxPosition{
	{"join-on", func(p string) string { return "SELECT a FROM t JOIN u ON " + p }},
	{"in-list", func(p string) string { return "SELECT a FROM t WHERE b IN ( 1 , ( " + p + " ) )" }},
	{"case-when", func(p string) string { return "SELECT a FROM t WHERE CASE WHEN " + p + " THEN 1 ELSE 0 END = 1" }},
	{"derived-table", func(p string) string { return "SELECT a FROM ( SELECT a FROM t WHERE " + p + " ) AS d" }},
	{"cte-body", func(p string) string { return "WITH c AS ( SELECT a FROM t WHERE " + p + " ) SELECT a FROM c" }},
	{"exists-subquery", func(p string) string { return "SELECT a FROM t WHERE EXISTS ( SELECT 1 FROM u WHERE " + p + " )" }},
	{"in-subquery", func(p string) string { return "SELECT a FROM t WHERE a IN ( SELECT b FROM u WHERE " + p + " )" }},
	{"insert-select", func(p string) string { return "INSERT INTO t ( a ) SELECT a FROM u WHERE " + p }},
	{"between", func(p string) string { return "SELECT a FROM t WHERE a BETWEEN 1 AND ( " + p + " )" }},
}

func vxHas(r *ScanResult, pat PatternType, sev Severity) bool {
	for _, f := range r.Findings {
		if f.Pattern == pat && f.Severity == sev {
			return true
		}
	}
	return false
}

// operand wrappers: where inside a condition the payload sits (composed two deep)
var vxOperandWraps = []vxPosition{
	{"itself", func(p string) string { return p }},
	{"paren", func(p string) string { return "( ( " + p + " ) )" }},
	{"and-right", func(p string) string { return "b = 2 AND " + p }},
	{"and-left", func(p string) string { return p + " AND b = 2" }},
	{"or-right", func(p string) string { return "b = 2 OR " + p }},
	{"or-left", func(p string) string { return p + " OR b = 2" }},
	{"not", func(p string) string { return "NOT ( " + p + " )" }},
}

// statement frames, upper and lower case
var vxFrames = []vxPosition{
	{"where", func(p string) string { return "SELECT a FROM t WHERE " + p }},
	{"having", func(p string) string { return "SELECT a FROM t GROUP BY a HAVING " + p }},
	{"update-where", func(p string) string { return "UPDATE t SET a = 1 WHERE " + p }},
	{"delete-where", func(p string) string { return "DELETE FROM t WHERE " + p }},
	{"union-arm", func(p string) string { return "SELECT a FROM t UNION SELECT b FROM u WHERE " + p }},
	{"union-arm-lower", func(p string) string { return "select a from t union all select b from u where " + p }},
	{"except-lower", func(p string) string { return "select a from t except select b from u where " + p }},
	{"layout", func(p string) string { return "select a\n\tfrom t -- c\n where /* x */ " + p }},
}

// VxC16_Operands: payload x (operand wrapper o operand wrapper) x frame; the scanned tree is frozen.
func VxC16_Operands() {
	vxFixedCase = true
	pl := vxPayloads[vx.Choice(len(vxPayloads))]
	w1 := vxOperandWraps[vx.Choice(len(vxOperandWraps))]
	w2 := vxOperandWraps[vx.Choice(len(vxOperandWraps))]
	fr := vxFrames[vx.Choice(len(vxFrames))]
	sql := fr.wrap(w2.wrap(w1.wrap(pl.build())))
	vx.Notef("payload=%s operand=%s in %s frame=%s sql=%q", pl.name, w1.name, w2.name, fr.name, sql)
	tree, err := gosqlx.Parse(sql)
	if err != nil {
		vx.Notef("parse error: %v", err)
		vx.Assertf("C16.template_parses", false, "template does not parse: %v", err)
		return
	}
	vx.Freeze(tree, "C16.tree_unchanged scanned tree")
	res := NewScanner().Scan(tree)
	vx.Unfreeze()
	vx.Assertf("C16.reported", vxHas(res, pl.pattern, pl.severity), "payload %s (%s/%s) not reported as %s inside %s, frame %s", pl.name, pl.pattern, pl.severity, w1.name, w2.name, fr.name)
}

func vxClosure(positions []vxPosition, id string) {
	pl := vxPayloads[vx.Choice(len(vxPayloads))]
	pos := positions[vx.Choice(len(positions))]
	text := pl.build()
	sql := pos.wrap(text)
	vx.Notef("payload=%s position=%s sql=%q", pl.name, pos.name, sql)
	tree, err := gosqlx.Parse(sql)
	if err != nil {
		vx.Notef("parse error: %v", err)
		vx.Assertf("C16.template_parses", false, "template does not parse: %v", err)
		return
	}
	res := NewScanner().Scan(tree)
	vx.Assertf(id, vxHas(res, pl.pattern, pl.severity), "payload %s (%s/%s) not reported at position %s", pl.name, pl.pattern, pl.severity, pos.name)
}

func VxC16_Closure()      { vxClosure(vxPositions, "C16.reported") }
func VxC16_ClosureBlind() { vxClosure(vxBlindPositions, "C16.reported_nested") }

// severity threshold and counts
var vxSeverities = []Severity{SeverityLow, SeverityMedium, SeverityHigh, SeverityCritical, Severity("BOGUS")}

var vxScanTexts = []string{
	"SELECT a FROM t WHERE 1 = 1 OR SLEEP ( 5 ) > 0",
	"SELECT a FROM t UNION SELECT NULL , NULL FROM pg_user",
	"SELECT a FROM t UNION SELECT b FROM pg_catalog.pg_user WHERE a = a",
	"SELECT LOAD_FILE ( 'x' ) , BENCHMARK ( 1 , SLEEP ( 2 ) ) FROM t WHERE 'x' = 'x'",
	"UPDATE t SET a = PG_SLEEP ( 1 ) WHERE b = b OR 2 = 2",
	"SELECT a FROM t WHERE b = 2",
}

func vxKey(f Finding) string {
	return string(f.Pattern) + "/" + string(f.Severity) + "/" + f.Description
}

func VxC16_Threshold() {
	sql := vxScanTexts[vx.Choice(len(vxScanTexts))]
	min := vxSeverities[vx.Choice(len(vxSeverities))]
	vx.Notef("sql=%q min=%s", sql, min)
	tree, err := gosqlx.Parse(sql)
	if err != nil {
		vx.Assertf("C16.template_parses", false, "template does not parse: %v", err)
		return
	}
	vx.Freeze(tree, "C16.tree_unchanged scanned tree")
	all := NewScanner().Scan(tree) // default threshold: LOW
	var s *Scanner
	if _, known := severityOrder[min]; known {
		s, err = NewScannerWithSeverity(min)
		vx.Assertf("C16.valid_threshold_accepted", err == nil && s != nil, "valid minimum severity %s rejected", min)
		if err != nil {
			return
		}
	} else {
		s, err = NewScannerWithSeverity(min)
		vx.Assertf("C16.invalid_threshold_rejected", err != nil, "invalid minimum severity %q accepted", string(min))
		return
	}
	res := s.Scan(tree)
	res2 := s.Scan(tree)
	vx.Unfreeze()
	// exactly the findings at or above the threshold remain, in order
	var want []string
	for _, f := range all.Findings {
		if severityOrder[f.Severity] >= severityOrder[min] {
			want = append(want, vxKey(f))
		}
	}
	var got []string
	for _, f := range res.Findings {
		got = append(got, vxKey(f))
	}
	vx.Assertf("C16.threshold_exact", strings.Join(got, "|") == strings.Join(want, "|"), "min=%s: findings %v, expected the findings of the LOW scan at or above the threshold: %v", min, got, want)
	// counts equal the findings listed
	c, h, m, l := 0, 0, 0, 0
	for _, f := range res.Findings {
		switch f.Severity {
		case SeverityCritical:
			c++
		case SeverityHigh:
			h++
		case SeverityMedium:
			m++
		case SeverityLow:
			l++
		}
	}
	vx.Assertf("C16.counts", res.TotalCount == len(res.Findings) && res.CriticalCount == c && res.HighCount == h && res.MediumCount == m && res.LowCount == l,
		"counts total=%d critical=%d high=%d medium=%d low=%d do not match %d findings (%d/%d/%d/%d)", res.TotalCount, res.CriticalCount, res.HighCount, res.MediumCount, res.LowCount, len(res.Findings), c, h, m, l)
	vx.Assertf("C16.has_critical", res.HasCritical() == (c > 0) && res.IsClean() == (len(res.Findings) == 0), "HasCritical/IsClean disagree with the findings")
	// a second scan returns the same
	var got2 []string
	for _, f := range res2.Findings {
		got2 = append(got2, vxKey(f))
	}
	vx.Assertf("C16.repeatable", strings.Join(got, "|") == strings.Join(got2, "|") && res2.TotalCount == res.TotalCount, "second scan differs from the first")
}
