package security

// C10 (race-freedom of library state): two or three goroutines each run one public operation
// (symbolic choice) on shared library state - pools, metrics, suggestion cache, span table,
// scanner patterns. Under the engine's scheduler every interleaving at sync/atomic and mutex
// granularity (<= 2 preemptions) is explored, and a happens-before monitor (vector clocks) checks
// every pair of conflicting memory accesses of the target code for an ordering edge.

import (
	"context"
	"errors"
	"sync"

	goerrors "github.com/ajitpratap0/GoSQLX/pkg/errors"
	"github.com/ajitpratap0/GoSQLX/pkg/gosqlx"
	"github.com/ajitpratap0/GoSQLX/pkg/metrics"
	"github.com/ajitpratap0/GoSQLX/pkg/models"
	"github.com/ajitpratap0/GoSQLX/pkg/sql/ast"
	"github.com/ajitpratap0/GoSQLX/pkg/sql/tokenizer"
	vx "github.com/ajitpratap0/GoSQLX/zzvx"
)

var errVxBoom = errors.New("boom")

type vxRaceCtx struct {
	context.Context
	k, n int
}

func (c *vxRaceCtx) Err() error {
	c.n++
	if c.n > c.k {
		return context.Canceled
	}
	return nil
}
func (c *vxRaceCtx) Done() <-chan struct{} { return nil }

var vxRaceTexts = []string{"SELECT a FROM t", "SELCT a", "SELECT a FROM t WHERE 1 = 1"}

const vxNRaceOps = 10

var vxRaceOpNames = []string{"Parse", "Validate", "Format", "metrics", "suggest", "span", "scan", "tokenize", "metrics-error", "cancelled-parse"}

func vxRaceOp(op int, text string, node ast.Node) string {
	switch op {
	case 0:
		tree, err := gosqlx.Parse(text)
		if err != nil {
			return "err"
		}
		return tree.SQL()
	case 1:
		if gosqlx.Validate(text) != nil {
			return "invalid"
		}
		return "valid"
	case 2:
		s, err := gosqlx.Format(text, gosqlx.DefaultFormatOptions())
		if err != nil {
			return "err"
		}
		return s
	case 3:
		metrics.RecordTokenization(1, len(text), nil)
		_ = metrics.GetStats()
		return "stats"
	case 4:
		return goerrors.SuggestKeyword("SELCT")
	case 5:
		ast.SetSpan(node, models.Span{Start: models.Location{Line: 1, Column: 1}, End: models.Location{Line: 1, Column: 2}})
		sp := ast.GetSpan(node)
		if sp.Start.Line != 1 {
			return "span-lost"
		}
		return "span"
	case 6:
		tree, err := gosqlx.Parse(text)
		if err != nil {
			return "err"
		}
		res := NewScanner().Scan(tree)
		if res.HasCritical() {
			return "critical"
		}
		return "clean"
	case 8:
		metrics.RecordTokenization(1, len(text), errVxBoom)
		st := metrics.GetStats()
		n := 0
		for range st.ErrorsByType {
			n++
		}
		return "stats-with-errors"
	case 9:
		// a parse whose context turns done while the text is being tokenized
		_, err := gosqlx.ParseWithContext(&vxRaceCtx{Context: context.Background(), k: 2}, text)
		if err != nil {
			return "cancelled"
		}
		return "parsed"
	default:
		tk := tokenizer.GetTokenizer()
		toks, err := tk.Tokenize([]byte(text))
		tokenizer.PutTokenizer(tk)
		if err != nil {
			return "err"
		}
		return string(rune('0' + len(toks)))
	}
}

func vxRace(n int, ops []int) {
	metrics.Enable()
	opv := make([]int, n)
	txt := make([]string, n)
	nodes := make([]ast.Node, n)
	for k := 0; k < n; k++ {
		opv[k] = ops[vx.Choice(len(ops))]
		txt[k] = vxRaceTexts[k%len(vxRaceTexts)] // goroutine 1 a valid text, goroutine 2 a rejected one, goroutine 3 a tautology
		nodes[k] = &ast.Identifier{Name: "n"}
		vx.Notef("g%d: %s %q", k+1, vxRaceOpNames[opv[k]], txt[k])
	}
	// what each call returns when it runs alone
	alone := make([]string, n)
	for k := 0; k < n; k++ {
		alone[k] = vxRaceOp(opv[k], txt[k], nodes[k])
	}
	vx.RaceMonitor("C10.race")
	got := make([]string, n)
	var wg sync.WaitGroup
	for k := 0; k < n; k++ {
		wg.Add(1)
		k := k
		go func() {
			defer wg.Done()
			got[k] = vxRaceOp(opv[k], txt[k], nodes[k])
		}()
	}
	wg.Wait()
	for k := 0; k < n; k++ {
		vx.Assertf("C10.same_as_alone", got[k] == alone[k], "goroutine %d: %s(%q) returned %q, alone it returns %q", k+1, vxRaceOpNames[opv[k]], txt[k], got[k], alone[k])
	}
}

var vxAllRaceOps = []int{0, 1, 2, 3, 4, 5, 6, 7, 8, 9}

func VxC10_Race2()    { vxRace(2, []int{0, 3, 4, 5, 7, 8, 9}) }
func VxC10_Race2All() { vxRace(2, vxAllRaceOps) }
func VxC10_Race3()    { vxRace(3, []int{3, 5, 8}) }
