package tokenizer

import (
	"errors"
	"fmt"
	"strings"

	goerrors "github.com/ajitpratap0/GoSQLX/pkg/errors"

	"github.com/ajitpratap0/GoSQLX/pkg/models"
	vx "github.com/ajitpratap0/GoSQLX/zzvx"
)

// alphabets: index 0 means "all 256 byte values".
var vxAlphabets = [][]byte{
	nil,
	[]byte("'\"`$-/*\\\n a1.@<>=!(;eE_:#"), // 1: lexical alphabet
	[]byte("a1'-/* \t\n\r"),                // 2: position alphabet
	[]byte("-/*\na "),                      // 3: comment alphabet
	[]byte("a ,"),                          // 4: token-count alphabet
}

// vxInput returns a symbolic input of length 0..maxN over alphabet alpha.
func vxInput(maxN int, alpha int) []byte {
	n := vx.Choice(maxN + 1)
	in := vx.Bytes(n)
	if a := vxAlphabets[alpha]; a != nil {
		for _, b := range in {
			ok := false
			for _, c := range a {
				ok = ok || b == c
			}
			vx.Assume(ok)
		}
	}
	return in
}

func showToks(toks []models.TokenWithSpan) string {
	var sb strings.Builder
	for _, t := range toks {
		fmt.Fprintf(&sb, "%d:%q@%d:%d-%d:%d ", int(t.Token.Type), t.Token.Value, t.Start.Line, t.Start.Column, t.End.Line, t.End.Column)
	}
	return sb.String()
}

func showRef(r refResult) string {
	var sb strings.Builder
	for _, t := range r.toks {
		fmt.Fprintf(&sb, "%d:%q[%d,%d) ", int(t.typ), t.val, t.off, t.end)
	}
	return sb.String()
}

func vxEnvInt(name string, def int) int {
	return vxParams[name+"="+fmt.Sprint(def)]
}

// vxC04 is the C04/C05 harness body for a bound (maxN, alphabet).
func vxC04(maxN, alpha int) {
	vxC04On(vxInput(maxN, alpha))
}

func vxC04On(in []byte) {
	tk, _ := New()
	toks, err := tk.Tokenize(in)
	vx.Notef("in=%q err=%v", in, err != nil)
	for _, t := range toks {
		vx.Notef("tok %d %q %d:%d-%d:%d", int(t.Token.Type), t.Token.Value, t.Start.Line, t.Start.Column, t.End.Line, t.End.Column)
	}
	for _, c := range tk.Comments {
		vx.Notef("comment %q", c.Text)
	}
	ref := refLex(in)

	if err != nil {
		// --- C13: every tokenizer failure is a structured lexical error located inside the input
		var se *goerrors.Error
		ok := errors.As(err, &se)
		vx.Assertf("C13.tok_structured", ok, "tokenizer error is not a *errors.Error: %v", err)
		if ok {
			code := string(se.Code)
			vx.Assertf("C13.tok_family", len(code) == 5 && code[0] == 'E' && code[1] == '1', "lexical failure reported with code %s", code)
			vx.Assert("C13.tok_message", se.Message != "")
			nl := 1
			for _, b := range in {
				if b == '\n' {
					nl++
				}
			}
			if se.Location.Line != 0 || se.Location.Column != 0 {
				vx.Assertf("C13.tok_location", se.Location.Line >= 1 && se.Location.Line <= nl && se.Location.Column >= 0, "location %d:%d outside a %d-line input", se.Location.Line, se.Location.Column, nl)
			}
		}
		vx.Assert("C01.tok_no_tokens_on_error", toks == nil)
	}
	if err == nil {
		// --- generic invariants (every accepted input)
		n := len(toks)
		vx.Assert("C04.eof_last", n > 0 && toks[n-1].Token.Type == models.TokenTypeEOF)
		eofs := 0
		for _, t := range toks {
			if t.Token.Type == models.TokenTypeEOF {
				eofs++
			}
		}
		vx.Assert("C04.eof_once", eofs == 1)
		lines := 1
		for _, b := range in {
			if b == '\n' {
				lines++
			}
		}
		for k, t := range toks {
			vx.Assert("C05.one_based", t.Start.Line >= 1 && t.Start.Column >= 1 && t.End.Line >= 1 && t.End.Column >= 1)
			vx.Assert("C05.in_lines", t.Start.Line <= lines && t.End.Line <= lines)
			vx.Assert("C05.start_le_end", locLE(t.Start, t.End))
			if k+1 < len(toks) {
				vx.Assert("C05.end_le_next_start", locLE(t.End, toks[k+1].Start))
			}
		}
	}
	if ref.status == refUnknown {
		return
	}
	// --- core grammar: same verdict, same kinds and values, comments with exact text
	if ref.status == refErr {
		vx.Assertf("C04.reject", err != nil, "%s accepted", ref.why)
		return
	}
	vx.Assertf("C04.accept", err == nil, "core-grammar input rejected")
	if err != nil {
		return
	}
	real := toks
	for n := len(real); n > 0 && real[n-1].Token.Type == models.TokenTypeEOF; n = len(real) {
		real = real[:n-1] // end markers are judged by C04.eof_once / C04.eof_last above
	}
	vx.Assertf("C04.count", len(real) == len(ref.toks), "want %d tokens, got %d", len(ref.toks), len(real))
	if len(real) != len(ref.toks) {
		return
	}
	asciiNoTab := true
	for _, b := range in {
		if b == '\t' {
			asciiNoTab = false
		}
	}
	for k, rt := range ref.toks {
		vx.Assertf("C04.kind", real[k].Token.Type == rt.typ, "token %d: want type %d got %d", k, int(rt.typ), int(real[k].Token.Type))
		vx.Assertf("C04.value", real[k].Token.Value == rt.val, "token %d: want value %q got %q", k, rt.val, real[k].Token.Value)
		if asciiNoTab {
			sl, sc := refLoc(in, rt.off)
			el, ec := refLoc(in, rt.end)
			// divergence descriptor: does the reported start coincide with the first comment in the gap before the token?
			gapFrom := 0
			if k > 0 {
				gapFrom = ref.toks[k-1].end
			}
			cause := "other"
			for _, rc := range ref.comments {
				if rc.off >= gapFrom && rc.off < rt.off {
					cl, cc := refLoc(in, rc.off)
					if real[k].Start.Line == cl && real[k].Start.Column == cc {
						cause = "start-of-preceding-comment"
					}
					break
				}
			}
			vx.Assertf("C05.start", real[k].Start.Line == sl && real[k].Start.Column == sc, "token %d: want start %d:%d got %d:%d cause=%s", k, sl, sc, real[k].Start.Line, real[k].Start.Column, cause)
			vx.Assertf("C05.end", real[k].End.Line == el && real[k].End.Column == ec, "token %d: want end %d:%d got %d:%d", k, el, ec, real[k].End.Line, real[k].End.Column)
		}
	}
	if asciiNoTab && len(toks) > 0 {
		// the end-of-input marker sits at the end of the input
		el, ec := refLoc(in, len(in))
		eof := toks[len(toks)-1]
		vx.Assertf("C05.eof_position", eof.Start.Line == el && eof.Start.Column == ec, "end of input is %d:%d, EOF token reported at %d:%d", el, ec, eof.Start.Line, eof.Start.Column)
	}
	vx.Assertf("C04.comment_count", len(tk.Comments) == len(ref.comments), "want %d comments got %d", len(ref.comments), len(tk.Comments))
	if len(tk.Comments) == len(ref.comments) {
		for k, rc := range ref.comments {
			vx.Assertf("C04.comment_text", tk.Comments[k].Text == rc.text, "comment %d: want %q got %q", k, rc.text, tk.Comments[k].Text)
			if asciiNoTab {
				sl, sc := refLoc(in, rc.off)
				vx.Assertf("C05.comment_start", tk.Comments[k].Start.Line == sl && tk.Comments[k].Start.Column == sc, "comment %d: want start %d:%d got %d:%d", k, sl, sc, tk.Comments[k].Start.Line, tk.Comments[k].Start.Column)
			}
		}
	}
}

func locLE(a, b models.Location) bool {
	return a.Line < b.Line || (a.Line == b.Line && a.Column <= b.Column)
}

var vxParams = map[string]int{}

func VxC04_All2() { vxC04(2, 0) }
func VxC04_All3() { vxC04(3, 0) }
func VxC04_All4() { vxC04(4, 0) }
func VxC04_Lex3() { vxC04(3, 1) }
func VxC04_Lex4() { vxC04(4, 1) }
func VxC04_Pos3() { vxC04(3, 2) }
func VxC04_Cmt4() { vxC04(4, 3) }
func VxC04_Cmt5() { vxC04(5, 3) }
func VxC04_Lex5() { vxC04(5, 1) }
func VxC04_Lex6() { vxC04(6, 1) }
func VxC04_Pos4() { vxC04(4, 2) }
func VxC04_Pos5() { vxC04(5, 2) }
func VxC04_Pos6() { vxC04(6, 2) }
func VxC04_Cmt6() { vxC04(6, 3) }
func VxC04_Cmt7() { vxC04(7, 3) }
func VxC04_Cmt8() { vxC04(8, 3) }

// ---- word slots: multi-word (compound) keywords are longer than any byte-level bound, so the
// words are concrete rows and only the separators between them are symbolic bytes

var vxWords1 = []string{"GROUP", "order", "Left", "RIGHT", "inner", "OUTER", "cross", "NATURAL", "full", "GROUPING", "a", "SELECT", "LEFTY"}
var vxWords2 = []string{"BY", "by", "JOIN", "join", "SETS", "OUTER", "x", "BYE", "1", "", "JOINS", "joined", "SETS1", "JOI", "OUTERX", "B"}
var vxWords3 = []string{"", "JOIN", "b"}
var vxSepAlphabet = []int{' ', '\n', '-', ','}

func vxSep(maxN int) []byte {
	n := vx.Choice(maxN + 1)
	b := make([]byte, n)
	for k := range b {
		b[k] = byte(vx.PickInt(vx.Small(len(vxSepAlphabet)), vxSepAlphabet))
	}
	return b
}

func vxC04Words(maxSep int) {
	var in []byte
	in = append(in, vxWords1[vx.Choice(len(vxWords1))]...)
	in = append(in, vxSep(maxSep)...)
	in = append(in, vxWords2[vx.Choice(len(vxWords2))]...)
	in = append(in, vxSep(1)...)
	in = append(in, vxWords3[vx.Choice(len(vxWords3))]...)
	vxC04On(in)
}

func VxC04_Words2() { vxC04Words(2) }

// C13 (location part) behind a compound-keyword look-ahead: a lexical error that follows
// word / separators / word must be reported on the line the failing element is written on
// (the look-ahead skips white space and must not leave line/column counters advanced).
var vxErrTails = []string{"'\\q'", "$$a", "\"a\nb\"", "'a"}

func vxC13WordsErr(maxSep int) {
	var in []byte
	in = append(in, vxWords1[vx.Choice(len(vxWords1))]...)
	in = append(in, vxSep(maxSep)...)
	in = append(in, vxWords2[vx.Choice(len(vxWords2))]...)
	in = append(in, ' ')
	in = append(in, vxSep(1)...)
	start := 1
	for _, b := range in {
		if b == '\n' {
			start++
		}
	}
	k := vx.Choice(len(vxErrTails))
	in = append(in, vxErrTails[k]...)
	tk, _ := New()
	_, err := tk.Tokenize(in)
	vx.Notef("in=%q err=%v", in, err != nil)
	if err == nil {
		return
	}
	var se *goerrors.Error
	if !errors.As(err, &se) {
		vx.Assertf("C13.tok_structured", false, "tokenizer error is not a *errors.Error: %v", err)
		return
	}
	vx.Assert("C13.tok_structured", true)
	last := start
	for _, b := range []byte(vxErrTails[k]) {
		if b == '\n' {
			last++
		}
	}
	if se.Location.Line != 0 || se.Location.Column != 0 {
		vx.Assertf("C13.tok_error_line", se.Location.Line >= start && se.Location.Line <= last, "%s reported at line %d, the failing element spans lines %d..%d", se.Code, se.Location.Line, start, last)
	}
}

func VxC13_WordsErr2() { vxC13WordsErr(2) }
func VxC13_WordsErr3() { vxC13WordsErr(3) } // 336,960 paths, clean on the unchanged tree in 243 s
func VxC04_Words3() { vxC04Words(3) }

// ---- keyword table sweep: every entry of the tokenizer's own keyword table, whatever its length,
// is recognised with the same kind in upper, lower and alternating case, alone and inside a
// statement (byte-level bounds never reach the long keywords).

var vxKeywordList = func() []string {
	var out []string
	for k := range keywordTokenTypes {
		out = append(out, k)
	}
	// deterministic order
	for a := 1; a < len(out); a++ {
		for b := a; b > 0 && out[b] < out[b-1]; b-- {
			out[b], out[b-1] = out[b-1], out[b]
		}
	}
	return out
}()

func vxRecase(w string, mode int) string {
	b := []byte(w)
	for k := range b {
		lower := mode == 1 || (mode == 2 && k%2 == 1) || (mode == 3 && k == len(b)-1)
		if lower && b[k] >= 'A' && b[k] <= 'Z' {
			b[k] += 'a' - 'A'
		}
	}
	return string(b)
}

func VxC04_Keywords() {
	w := vxKeywordList[vx.Choice(len(vxKeywordList))]
	mode := vx.Choice(4) // upper, lower, alternating, last letter lower
	if compoundKeywordStarts[w] {
		return // multi-word keyword starts are judged by the word-slot harness
	}
	spelled := vxRecase(w, mode)
	vx.Notef("keyword=%q spelled=%q", w, spelled)
	for _, in := range []string{spelled, "x " + spelled + " y"} {
		tk, _ := New()
		toks, err := tk.Tokenize([]byte(in))
		vx.Assertf("C04.keyword_accept", err == nil, "%q is rejected: %v", in, err)
		if err != nil {
			return
		}
		at := 0
		if len(in) > len(spelled) {
			at = 1
		}
		vx.Assertf("C04.keyword_kind", len(toks) > at && toks[at].Token.Type == keywordTokenTypes[w], "%q in %q: kind %d, the table says %d", spelled, in, int(toks[at].Token.Type), int(keywordTokenTypes[w]))
		vx.Assertf("C04.keyword_value", len(toks) > at && toks[at].Token.Value == spelled, "%q in %q: value %q", spelled, in, toks[at].Token.Value)
	}
}
