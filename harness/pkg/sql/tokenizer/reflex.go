package tokenizer

// Reference lexer for C04/C05, written from the lexical grammar (not from the
// tokenizer's scanning code). It answers refUnknown wherever the grammar the
// properties describe is silent; then only generic invariants are asserted.

import (
	"strings"

	"github.com/ajitpratap0/GoSQLX/pkg/models"
)

const (
	refOK = iota
	refErr
	refUnknown
)

type refTok struct {
	typ      models.TokenType
	val      string
	off, end int // byte offsets [off,end)
}

type refComment struct {
	text     string
	off, end int
}

type refResult struct {
	status   int
	why      string
	toks     []refTok
	comments []refComment
}

func isWS(b byte) bool     { return b == ' ' || b == '\t' || b == '\n' || b == '\r' }
func isDig(b byte) bool    { return b >= '0' && b <= '9' }
func isAlpha(b byte) bool  { return (b >= 'a' && b <= 'z') || (b >= 'A' && b <= 'Z') || b == '_' }
func isIdentC(b byte) bool { return isAlpha(b) || isDig(b) }

// operator table: longest match first
var refOps = []struct {
	s string
	t models.TokenType
}{
	{"->>", models.TokenTypeLongArrow}, {"#>>", models.TokenTypeHashLongArrow}, {"!~*", models.TokenTypeExclamationMarkTildeAsterisk},
	{"->", models.TokenTypeArrow}, {"=>", models.TokenTypeRArrow}, {"<=", models.TokenTypeLtEq}, {"<>", models.TokenTypeNeq},
	{"<@", models.TokenTypeArrowAt}, {">=", models.TokenTypeGtEq}, {"!=", models.TokenTypeNeq}, {"!~", models.TokenTypeExclamationMarkTilde},
	{"::", models.TokenTypeDoubleColon}, {"||", models.TokenTypeStringConcat}, {"&&", models.TokenTypeOverlap}, {"@>", models.TokenTypeAtArrow},
	{"@@", models.TokenTypeAtAt}, {"#>", models.TokenTypeHashArrow}, {"#-", models.TokenTypeHashMinus}, {"?|", models.TokenTypeQuestionPipe},
	{"?&", models.TokenTypeQuestionAnd}, {"~*", models.TokenTypeTildeAsterisk},
	{"(", models.TokenTypeLeftParen}, {")", models.TokenTypeRightParen}, {"[", models.TokenTypeLBracket}, {"]", models.TokenTypeRBracket},
	{",", models.TokenTypeComma}, {";", models.TokenTypeSemicolon}, {".", models.TokenTypeDot}, {"+", models.TokenTypePlus},
	{"-", models.TokenTypeMinus}, {"*", models.TokenTypeMul}, {"/", models.TokenTypeDiv}, {"=", models.TokenTypeEq},
	{"<", models.TokenTypeLt}, {">", models.TokenTypeGt}, {"!", models.TokenTypeExclamationMark}, {":", models.TokenTypeColon},
	{"%", models.TokenTypeMod}, {"|", models.TokenTypePipe}, {"&", models.TokenTypeAmpersand}, {"@", models.TokenTypeAtSign},
	{"#", models.TokenTypeSharp}, {"?", models.TokenTypeQuestion}, {"~", models.TokenTypeTilde},
}

func hasAt(in []byte, p int, s string) bool {
	if p+len(s) > len(in) {
		return false
	}
	for k := 0; k < len(s); k++ {
		if in[p+k] != s[k] {
			return false
		}
	}
	return true
}

func refLex(in []byte) refResult {
	var r refResult
	unknown := func(why string) refResult { return refResult{status: refUnknown, why: why} }
	p := 0
	for p < len(in) {
		b := in[p]
		if b >= 0x80 {
			return unknown("non-ascii")
		}
		switch {
		case isWS(b):
			p++
		case hasAt(in, p, "--"):
			e := p + 2
			for e < len(in) && in[e] != '\n' {
				if in[e] >= 0x80 {
					return unknown("non-ascii")
				}
				e++
			}
			r.comments = append(r.comments, refComment{text: string(in[p:e]), off: p, end: e})
			p = e
		case hasAt(in, p, "/*"):
			e := p + 2
			closed := false
			for e < len(in) {
				if in[e] >= 0x80 {
					return unknown("non-ascii")
				}
				if hasAt(in, e, "*/") {
					e += 2
					closed = true
					break
				}
				e++
			}
			if !closed {
				r.status = refErr
				r.why = "unterminated block comment"
				return r
			}
			r.comments = append(r.comments, refComment{text: string(in[p:e]), off: p, end: e})
			p = e
		case isAlpha(b):
			e := p + 1
			for e < len(in) && isIdentC(in[e]) {
				e++
			}
			if e < len(in) && in[e] >= 0x80 {
				return unknown("non-ascii")
			}
			w := string(in[p:e])
			up := strings.ToUpper(w)
			if compoundKeywordStarts[up] {
				// word, whitespace, word: one token when the pair is a multi-word keyword
				q := e
				for q < len(in) && isWS(in[q]) {
					q++
				}
				if q < len(in) && in[q] >= 0x80 {
					return unknown("non-ascii")
				}
				if q < len(in) && isAlpha(in[q]) {
					e2 := q + 1
					for e2 < len(in) && isIdentC(in[e2]) {
						e2++
					}
					if e2 < len(in) && in[e2] >= 0x80 {
						return unknown("non-ascii")
					}
					pair := w + " " + string(in[q:e2])
					if ctyp, ok := compoundKeywordTypes[strings.ToUpper(pair)]; ok {
						r.toks = append(r.toks, refTok{typ: ctyp, val: pair, off: p, end: e2})
						p = e2
						continue
					}
				}
			}
			typ, ok := keywordTokenTypes[up]
			if !ok {
				typ = models.TokenTypeIdentifier
			}
			r.toks = append(r.toks, refTok{typ: typ, val: w, off: p, end: e})
			p = e
		case isDig(b):
			e := p
			for e < len(in) && isDig(in[e]) {
				e++
			}
			if e < len(in) && in[e] == '.' {
				if e+1 < len(in) && isDig(in[e+1]) {
					e++
					for e < len(in) && isDig(in[e]) {
						e++
					}
				} else {
					return unknown("digits followed by bare dot")
				}
			}
			if e < len(in) && (in[e] == 'e' || in[e] == 'E') {
				f := e + 1
				if f < len(in) && (in[f] == '+' || in[f] == '-') {
					f++
				}
				if f < len(in) && isDig(in[f]) {
					for f < len(in) && isDig(in[f]) {
						f++
					}
					e = f
				} else {
					return unknown("dangling exponent")
				}
			}
			if e < len(in) && in[e] >= 0x80 {
				return unknown("non-ascii")
			}
			r.toks = append(r.toks, refTok{typ: models.TokenTypeNumber, val: string(in[p:e]), off: p, end: e})
			p = e
		case b == '\'':
			if hasAt(in, p, "'''") {
				return unknown("triple quote")
			}
			e := p + 1
			var val []byte
			closed := false
			for e < len(in) {
				c := in[e]
				if c >= 0x80 {
					return unknown("non-ascii")
				}
				if c == '\'' {
					if e+1 < len(in) && in[e+1] == '\'' {
						val = append(val, '\'')
						e += 2
						continue
					}
					e++
					closed = true
					break
				}
				if c == '\\' {
					if e+1 >= len(in) {
						return unknown("backslash at end")
					}
					switch in[e+1] {
					case '\\', '"', '\'', '`':
						val = append(val, in[e+1])
					case 'n':
						val = append(val, '\n')
					case 'r':
						val = append(val, '\r')
					case 't':
						val = append(val, '\t')
					default:
						return unknown("other escape")
					}
					e += 2
					continue
				}
				val = append(val, c)
				e++
			}
			if !closed {
				r.status = refErr
				r.why = "unterminated string"
				return r
			}
			r.toks = append(r.toks, refTok{typ: models.TokenTypeSingleQuotedString, val: string(val), off: p, end: e})
			p = e
		case b == '"' || b == '`':
			e := p + 1
			var val []byte
			closed := false
			for e < len(in) {
				c := in[e]
				if c >= 0x80 {
					return unknown("non-ascii")
				}
				if c == b {
					if e+1 < len(in) && in[e+1] == b {
						val = append(val, b)
						e += 2
						continue
					}
					e++
					closed = true
					break
				}
				if c == '\n' && b == '"' {
					return unknown("newline in quoted identifier")
				}
				val = append(val, c)
				e++
			}
			if !closed {
				r.status = refErr
				r.why = "unterminated quoted identifier"
				return r
			}
			typ := models.TokenTypeDoubleQuotedString
			if b == '`' {
				typ = models.TokenTypeIdentifier
			}
			r.toks = append(r.toks, refTok{typ: typ, val: string(val), off: p, end: e})
			p = e
		case b == '$':
			if p+1 < len(in) && isDig(in[p+1]) {
				e := p + 1
				for e < len(in) && isDig(in[e]) {
					e++
				}
				r.toks = append(r.toks, refTok{typ: models.TokenTypePlaceholder, val: string(in[p:e]), off: p, end: e})
				p = e
				break
			}
			// $tag$ ... $tag$
			e := p + 1
			for e < len(in) && isIdentC(in[e]) {
				e++
			}
			if e < len(in) && in[e] == '$' && (e == p+1 || isAlpha(in[p+1])) {
				tag := string(in[p : e+1])
				body := e + 1
				q := body
				found := false
				for q < len(in) {
					if in[q] >= 0x80 {
						return unknown("non-ascii")
					}
					if hasAt(in, q, tag) {
						found = true
						break
					}
					q++
				}
				if !found {
					r.status = refErr
					r.why = "unterminated dollar quote"
					return r
				}
				r.toks = append(r.toks, refTok{typ: models.TokenTypeDollarQuotedString, val: string(in[body:q]), off: p, end: q + len(tag)})
				p = q + len(tag)
				break
			}
			// a lone '$': its own token; whatever follows is lexed on its own
			r.toks = append(r.toks, refTok{typ: models.TokenTypePlaceholder, val: "$", off: p, end: p + 1})
			p++
		case b == '@' && p+1 < len(in) && isAlpha(in[p+1]):
			e := p + 2
			for e < len(in) && isIdentC(in[e]) {
				e++
			}
			if e < len(in) && in[e] >= 0x80 {
				return unknown("non-ascii")
			}
			if compoundKeywordStarts[strings.ToUpper(string(in[p+1:e]))] {
				return unknown("compound keyword start")
			}
			r.toks = append(r.toks, refTok{typ: models.TokenTypePlaceholder, val: string(in[p:e]), off: p, end: e})
			p = e
		case b == '.' && p+1 < len(in) && isDig(in[p+1]):
			return unknown("leading-dot number")
		default:
			matched := false
			for _, op := range refOps {
				if hasAt(in, p, op.s) {
					r.toks = append(r.toks, refTok{typ: op.t, val: op.s, off: p, end: p + len(op.s)})
					p += len(op.s)
					matched = true
					break
				}
			}
			if !matched {
				return unknown("character outside the lexical grammar")
			}
		}
	}
	return r
}

// refLoc converts a byte offset to 1-based (line, column) for ASCII tab-free input.
func refLoc(in []byte, off int) (int, int) {
	line, ls := 1, 0
	for k := 0; k < off && k < len(in); k++ {
		if in[k] == '\n' {
			line++
			ls = k + 1
		}
	}
	return line, off - ls + 1
}
