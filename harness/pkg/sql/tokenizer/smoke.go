package tokenizer

import (
	"fmt"

	vx "github.com/ajitpratap0/GoSQLX/zzvx"
)

// VxSmokeConcrete tokenizes a concrete statement (engine bring-up).
func VxSmokeConcrete() {
	tk, _ := New()
	toks, err := tk.Tokenize([]byte("SELECT a, 'x''y' FROM t -- c\nWHERE a >= 10"))
	vx.Assert("noerr", err == nil)
	s := ""
	for _, t := range toks {
		s += fmt.Sprintf("%d:%s@%d:%d ", t.Token.Type, t.Token.Value, t.Start.Line, t.Start.Column)
	}
	vx.Note(s)
	vx.Assert("count", len(toks) == 11)
}

// VxSmokeSym tokenizes N symbolic bytes.
func VxSmokeSym() {
	n := vx.Choice(3)
	in := vx.Bytes(n)
	tk, _ := New()
	toks, err := tk.Tokenize(in)
	if err == nil {
		vx.Assert("eof_last", len(toks) > 0 && toks[len(toks)-1].Token.Type == 0)
	}
}
