package tokenizer

import (
	"context"
	"errors"

	goerrors "github.com/ajitpratap0/GoSQLX/pkg/errors"
	"github.com/ajitpratap0/GoSQLX/pkg/models"
	vx "github.com/ajitpratap0/GoSQLX/zzvx"
)

// documented limits (README / doc.go): 10 MiB of input, 1,000,000 tokens
const vxDocMaxInput = 10 * 1024 * 1024

var vxLen int

// VxResetProbe replaces (*Tokenizer).Reset in VxC02_ByteLimit*: reaching Reset means the
// size check let the input through; the content of a symbolic-length input is never read.
func VxResetProbe(t *Tokenizer) {
	vx.Assertf("C02.bytes_accepted_only_within_limit", vxLen <= vxDocMaxInput, "input of %d bytes passed the size check", vxLen)
	vx.Assume(false)
}

func vxByteLimit(useCtx bool) {
	in := vx.BytesSymLen(1 << 25) // any length up to 32 MiB; content irrelevant
	vxLen = len(in)
	vx.Notef("len=%d", len(in))
	tk, _ := New()
	var toks []models.TokenWithSpan
	var err error
	if useCtx {
		toks, err = tk.TokenizeContext(context.Background(), in)
	} else {
		toks, err = tk.Tokenize(in)
	}
	var se *goerrors.Error
	tooLarge := err != nil && errors.As(err, &se) && se.Code == goerrors.ErrCodeInputTooLarge
	vx.Assertf("C02.bytes_reject", len(in) <= vxDocMaxInput || (tooLarge && toks == nil), "input of %d bytes not rejected with E1006", len(in))
	vx.Assertf("C02.bytes_accept", len(in) > vxDocMaxInput || !tooLarge, "input of %d bytes (within the limit) rejected as too large", len(in))
}

func VxC02_ByteLimit()    { vxByteLimit(false) }
func VxC02_ByteLimitCtx() { vxByteLimit(true) }

// Token limit, with the source instantiated at MaxTokens = 2 (overlay generated from the
// working tree by the check; data-independence: the constant only occurs in the comparison
// with len(tokens) and in the error builder).
func vxTokenLimit(useCtx bool, maxN int) {
	in := vxInput(maxN, 4)
	tk, _ := New()
	var err error
	if useCtx {
		_, err = tk.TokenizeContext(context.Background(), in)
	} else {
		_, err = tk.Tokenize(in)
	}
	vx.Notef("in=%q maxtokens=%d err=%v", in, MaxTokens, err != nil)
	ref := refLex(in)
	if ref.status != refOK {
		return
	}
	var se *goerrors.Error
	limit := err != nil && errors.As(err, &se) && se.Code == goerrors.ErrCodeTokenLimitReached
	n := len(ref.toks)
	vx.Assertf("C02.tokens_reject", n <= MaxTokens || limit, "%d tokens (limit %d) not rejected with E1007", n, MaxTokens)
	vx.Assertf("C02.tokens_accept", n > MaxTokens || !limit, "%d tokens (limit %d) rejected as over the token limit", n, MaxTokens)
}

func VxC02_TokenLimit5()    { vxTokenLimit(false, 5) }
func VxC02_TokenLimitCtx5() { vxTokenLimit(true, 5) }
func VxC02_TokenLimit7()    { vxTokenLimit(false, 7) }
func VxC02_TokenLimitCtx7() { vxTokenLimit(true, 7) }
