package tokenizer

// C11 (tokenizer): TokenizeContext polls its context every N tokens (the check instantiates N = 2
// in an overlay of the current source so the polls are reachable). The context turns done at its
// k-th poll, k symbolic, with a cancellation cause attached: a cancelled call reports the
// context's error (errors.Is with ctx.Err()), returns no tokens; an uncancelled one returns what
// Tokenize returns.

import (
	"context"
	"errors"

	vx "github.com/ajitpratap0/GoSQLX/zzvx"
)

var errVxCause = errors.New("vx: the reason the caller cancelled")

type vxPollCtx struct {
	context.Context
	cancel context.CancelCauseFunc
	k, n   int
}

func (c *vxPollCtx) Err() error {
	if c.n == c.k {
		c.cancel(errVxCause)
	}
	c.n++
	return c.Context.Err()
}

func VxC11_Tok() {
	in := []byte("a , b , c , d , e")
	k := vx.Choice(8)
	inner, cancel := context.WithCancelCause(context.Background())
	ctx := &vxPollCtx{Context: inner, cancel: cancel, k: k}
	vx.Notef("cancel at poll %d", k)
	tk, _ := New()
	toks, err := tk.TokenizeContext(ctx, in)
	observed := ctx.n > k
	vx.Notef("polls=%d observed=%v", ctx.n, observed)
	if observed {
		vx.Assertf("C11.tok_is_ctx_err", err != nil && errors.Is(err, context.Canceled) && errors.Is(err, ctx.Context.Err()), "cancelled TokenizeContext returns %v, the context's error is %v", err, ctx.Context.Err())
		vx.Assertf("C11.tok_no_partial", toks == nil, "cancelled TokenizeContext returns %d tokens", len(toks))
		vx.Assertf("C11.tok_prompt", ctx.n-k <= 1, "%d further polls after the context turned done", ctx.n-k-1)
	} else {
		fresh, _ := New()
		want, werr := fresh.Tokenize(in)
		vx.Assertf("C11.tok_same", (err == nil) == (werr == nil) && len(toks) == len(want), "uncancelled TokenizeContext differs from Tokenize")
	}
	cancel(nil)
}
