package tokenizer

// C08 / C13 (tokenizer instances): what Tokenize returns for an input - tokens, spans, comments,
// and on failure the error's code, message and location - does not depend on what the same
// instance tokenized before (with or without an explicit Reset, directly or through the pool).

import (
	"errors"

	goerrors "github.com/ajitpratap0/GoSQLX/pkg/errors"
	vx "github.com/ajitpratap0/GoSQLX/zzvx"
)

var vxReusePrev = []string{"", "a", "ab\n\n  cd  'x'\n -- c\n", "'open", "\"q\nq\""}
var vxReuseAlphabet = []int{'$', 'a', '\n', '"', '\\', '\'', ' '}

func vxTokReuse(maxN int) {
	prev := vxReusePrev[vx.Choice(len(vxReusePrev))]
	n := vx.Choice(maxN + 1)
	in := make([]byte, n)
	for k := range in {
		in[k] = byte(vx.PickInt(vx.Small(len(vxReuseAlphabet)), vxReuseAlphabet))
	}
	how := vx.Choice(3) // 0: plain reuse, 1: Reset in between, 2: through the pool
	vx.Notef("prev=%q in=%q how=%d", prev, in, how)

	fresh, _ := New()
	want, wantErr := fresh.Tokenize(in)

	tk := GetTokenizer()
	_, _ = tk.Tokenize([]byte(prev))
	switch how {
	case 1:
		tk.Reset()
	case 2:
		PutTokenizer(tk)
		tk = GetTokenizer()
	}
	got, gotErr := tk.Tokenize(in)

	vx.Assertf("C08.tok_same_verdict", (gotErr == nil) == (wantErr == nil), "a reused tokenizer accepts=%v, a fresh one accepts=%v", gotErr == nil, wantErr == nil)
	if (gotErr == nil) != (wantErr == nil) {
		return
	}
	if wantErr != nil {
		var a, b *goerrors.Error
		okA, okB := errors.As(wantErr, &a), errors.As(gotErr, &b)
		vx.Assertf("C13.tok_reproducible", okA == okB, "structured error on one instance only")
		if okA && okB {
			vx.Assertf("C13.tok_reproducible", a.Code == b.Code && a.Message == b.Message, "fresh: %s %q, reused: %s %q", a.Code, a.Message, b.Code, b.Message)
			vx.Assertf("C08.tok_same_error", a.Code == b.Code && a.Message == b.Message && a.Location == b.Location, "fresh instance: %s at %d:%d, reused instance: %s at %d:%d", a.Code, a.Location.Line, a.Location.Column, b.Code, b.Location.Line, b.Location.Column)
			vx.Assertf("C13.tok_same_location", a.Location == b.Location, "fresh instance locates the error at %d:%d, reused instance at %d:%d", a.Location.Line, a.Location.Column, b.Location.Line, b.Location.Column)
		}
		return
	}
	vx.Assertf("C08.tok_same_tokens", len(got) == len(want), "fresh instance: %d tokens, reused: %d", len(want), len(got))
	if len(got) != len(want) {
		return
	}
	for k := range want {
		vx.Assertf("C08.tok_same_tokens", got[k].Token.Type == want[k].Token.Type && got[k].Token.Value == want[k].Token.Value, "token %d differs: fresh %d %q, reused %d %q", k, int(want[k].Token.Type), want[k].Token.Value, int(got[k].Token.Type), got[k].Token.Value)
		vx.Assertf("C08.tok_same_spans", got[k].Start == want[k].Start && got[k].End == want[k].End, "token %d: fresh %v-%v, reused %v-%v", k, want[k].Start, want[k].End, got[k].Start, got[k].End)
	}
	vx.Assertf("C08.tok_same_comments", len(tk.Comments) == len(fresh.Comments), "fresh instance: %d comments, reused: %d", len(fresh.Comments), len(tk.Comments))
}

func VxC08_TokReuse3() { vxTokReuse(3) }
func VxC08_TokReuse4() { vxTokReuse(4) }
