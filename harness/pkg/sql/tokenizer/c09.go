package tokenizer

import (
	vx "github.com/ajitpratap0/GoSQLX/zzvx"
)

// C09 (tokenizer): tokens and comments returned by one call are not modified by the
// next call on the same (or a pooled) instance.
func vxTokAlias(maxN int, pooled bool) {
	in1 := vxInput(maxN, 3)
	in2 := vxInput(maxN, 3)
	vx.Notef("in1=%q in2=%q pooled=%v", in1, in2, pooled)
	tk := GetTokenizer()
	toks1, err := tk.Tokenize(in1)
	if err != nil {
		return
	}
	c1 := tk.Comments
	vx.Freeze(toks1, "C09.frozen tokens of the first call")
	vx.Freeze(c1, "C09.frozen comments of the first call")
	if pooled {
		PutTokenizer(tk)
		tk = GetTokenizer()
	}
	_, _ = tk.Tokenize(in2)
	vx.Unfreeze()
}

func VxC09_TokAlias3()     { vxTokAlias(3, false) }
func VxC09_TokAliasPool3() { vxTokAlias(3, true) }
func VxC09_TokAlias4()     { vxTokAlias(4, false) }
