package ast
