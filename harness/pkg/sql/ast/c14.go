package ast

import (
	"github.com/ajitpratap0/GoSQLX/pkg/models"
	vx "github.com/ajitpratap0/GoSQLX/zzvx"
)

// vxCheckVisitsAll: every node pointer stored in the tree below root (engine/native
// reflection over the tree's own fields) is visited by Inspect.
func vxCheckVisitsAll(root Node, typ string, field int) {
	reach := vx.Reach(root, (*Node)(nil))
	var seen []any
	Inspect(root, func(n Node) bool {
		if n != nil {
			seen = append(seen, n)
		}
		return true
	})
	for k, r := range reach {
		if vx.SameObject(r, root) {
			continue
		}
		hit := false
		for _, s := range seen {
			if vx.SameObject(r, s) {
				hit = true
			}
		}
		if hit {
			vx.Assert("C14.visits", true)
			continue
		}
		// divergence descriptor: is the missed node below a window frame (whose Children() is nil)?
		cause := "other"
		frames := []any{}
		if _, ok := root.(*WindowFrame); ok {
			frames = append(frames, root)
		}
		for _, f := range reach {
			if _, ok := f.(*WindowFrame); ok {
				frames = append(frames, f)
			}
		}
		for _, f := range frames {
			for _, x := range vx.Reach(f, (*Node)(nil)) {
				if vx.SameObject(x, r) {
					cause = "below-window-frame"
				}
			}
		}
		vx.Assertf("C14.visits", false, "%s: node #%d reachable through field %d (%s) is never visited by Inspect cause=%s", typ, k, field, vx.Dump(r), cause)
	}
}

// VxC14_Deep: trees the parser builds iteratively (left-deep operator chains) are
// traversed to the bottom whatever their height.
func VxC14_Deep() {
	depth := 1 + vx.Choice(300)
	bottom := &Identifier{Name: "bottom"}
	var e Expression = bottom
	for k := 0; k < depth; k++ {
		e = &BinaryExpression{Left: e, Operator: "OR", Right: &Identifier{Name: "x"}}
	}
	vx.Notef("depth=%d", depth)
	found := false
	Inspect(e, func(n Node) bool {
		if n == Node(bottom) {
			found = true
		}
		return true
	})
	vx.Assertf("C14.deep", found, "operand at depth %d of a left-deep chain is not visited", depth)
}

// VxC09_ASTContainer: the AST container itself comes back clean from the pool whatever
// it held (any number of comments, any statements).
func VxC09_ASTContainer() {
	vx.PoolGC()
	a := NewAST()
	n := vx.Choice(40)
	a.Comments = make([]models.Comment, n)
	for k := range a.Comments {
		a.Comments[k].Text = "-- note"
	}
	a.Statements = append(a.Statements, &SelectStatement{TableName: "t"})
	vx.Notef("comments=%d", n)
	ReleaseAST(a)
	b := NewAST() // LIFO pool model: the container just released
	vx.Assertf("C09.clean_container", len(b.Comments) == 0 && len(b.Statements) == 0, "AST container from the pool still holds %d comments / %d statements of the previous user", len(b.Comments), len(b.Statements))
}
