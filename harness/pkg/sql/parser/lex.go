package parser

// Symbolic token model (DESIGN.md 4.2): a lexeme table whose rows are produced by
// the real tokenizer + converter at package-initialisation time, plus hand-made
// rows no tokenizer can produce. A symbolic token is table[sel] for a selector sel
// that stays symbolic: the parser's `Type == const` tests are decided by the solver.

import (
	"fmt"

	"github.com/ajitpratap0/GoSQLX/pkg/models"
	"github.com/ajitpratap0/GoSQLX/pkg/sql/token"
	"github.com/ajitpratap0/GoSQLX/pkg/sql/tokenizer"
	vx "github.com/ajitpratap0/GoSQLX/zzvx"
)

// VxRow is one lexeme: the parser token and the SQL text that produces it.
type VxRow struct {
	Typ int
	Lit string
	Src string
}

// VxTable is a set of rows with the parallel slices PickInt/PickStr need.
type VxTable struct {
	Rows []VxRow
	Typs []int
	Lits []string
	Srcs []string
}

func vxLexRows(lexemes []string) []VxRow {
	var rows []VxRow
	for _, s := range lexemes {
		tk, _ := tokenizer.New()
		mt, err := tk.Tokenize([]byte(s))
		if err != nil {
			panic("vx: lexeme does not tokenize: " + s)
		}
		conv, err := convertModelTokens(mt)
		if err != nil {
			panic("vx: lexeme does not convert: " + s)
		}
		for _, t := range conv {
			if t.Type == models.TokenTypeEOF {
				continue
			}
			rows = append(rows, VxRow{Typ: int(t.Type), Lit: t.Literal, Src: s})
		}
	}
	return rows
}

func VxMakeTable(rows []VxRow) *VxTable {
	t := &VxTable{Rows: rows}
	for _, r := range rows {
		t.Typs = append(t.Typs, r.Typ)
		t.Lits = append(t.Lits, r.Lit)
		t.Srcs = append(t.Srcs, r.Src)
	}
	return t
}

// Tok returns table[sel] for a fresh symbolic selector.
func (t *VxTable) Tok() token.Token {
	sel := vx.Small(len(t.Rows))
	return token.Token{Type: models.TokenType(vx.PickInt(sel, t.Typs)), Literal: vx.PickStr(sel, t.Lits)}
}

// Toks returns a token sequence of symbolic length 0..maxK.
func (t *VxTable) Toks(maxK int) []token.Token {
	k := vx.Choice(maxK + 1)
	out := make([]token.Token, 0, k+2)
	for j := 0; j < k; j++ {
		out = append(out, t.Tok())
	}
	return out
}

var vxExprLexemes = []string{
	"a", "b", "t", "1", "'x'",
	"=", "<>", "<", "<=", ">", ">=", "+", "-", "*", "/", "%", "||",
	"(", ")", ",", ".", "NOT", "IS", "NULL", "IN", "BETWEEN", "AND", "OR", "LIKE", "ILIKE",
	"EXISTS", "CASE", "WHEN", "THEN", "ELSE", "END", "CAST", "AS", "TRUE", "::", "[", "]", "INTERVAL", "ANY", "ALL",
}

var vxStmtLexemes = []string{
	"SELECT", "FROM", "WHERE", "GROUP BY", "HAVING", "ORDER BY", "LIMIT", "OFFSET", "DISTINCT", "JOIN", "LEFT", "INNER", "ON", "USING",
	"UNION", "EXCEPT", "INTERSECT", "WITH", "RECURSIVE", "INSERT", "INTO", "VALUES", "UPDATE", "SET", "DELETE", "CREATE", "TABLE", "DROP",
	"ALTER", "MERGE", "TRUNCATE", "SHOW", "DESCRIBE", "REPLACE", "OVER", "PARTITION", "ROWS", "DESC", "ASC", "NULLS", "FIRST", "LAST",
	"FOR", "RETURNING", "DEFAULT", "PRIMARY", "KEY", "INDEX", "VIEW", "IF", "FETCH", "NEXT", "ONLY", "LATERAL", "NATURAL", "CROSS", "FULL", "OUTER", ";",
	"MATCH", "AGAINST", "WINDOW", "FILTER", "WITHIN", "ARRAY", "ROW", "TOP", "PIVOT", "UNPIVOT", "QUALIFY", "REFRESH", "MATERIALIZED",
}

// rows no tokenizer run can produce
var vxHostileRows = []VxRow{
	{Typ: 0, Lit: "", Src: ""},                                  // type-less / EOF in the middle
	{Typ: int(models.TokenTypeIdentifier), Lit: "", Src: "a"},   // identifier with empty literal
	{Typ: int(models.TokenTypeSelect), Lit: "x", Src: "SELECT"}, // keyword type with mismatched literal
	{Typ: int(models.TokenTypeNumber), Lit: "x", Src: "1"},      // number that is not numeric
	{Typ: int(models.TokenTypeKeyword), Lit: "", Src: "a"},      // generic keyword with empty literal
	{Typ: 9999, Lit: "?", Src: "a"},                             // unknown type
}

var (
	VxExprTable    = VxMakeTable(vxLexRows(vxExprLexemes))
	VxStmtTable    = VxMakeTable(append(vxLexRows(vxStmtLexemes), vxLexRows(vxExprLexemes)...))
	VxHostileTable = VxMakeTable(append(append(vxLexRows(vxStmtLexemes), vxLexRows(vxExprLexemes)...), vxHostileRows...))
)

// VxFixed converts SQL text into concrete parser tokens (without EOF).
func VxFixed(sql string) []token.Token {
	tk, _ := tokenizer.New()
	mt, err := tk.Tokenize([]byte(sql))
	if err != nil {
		panic("vx: fixed text does not tokenize: " + sql)
	}
	conv, err := convertModelTokens(mt)
	if err != nil {
		panic("vx: fixed text does not convert: " + sql)
	}
	var out []token.Token
	for _, t := range conv {
		if t.Type != models.TokenTypeEOF {
			out = append(out, t)
		}
	}
	return out
}

var VxEOF = token.Token{Type: models.TokenTypeEOF}

// VxNoteToks records the token sequence as witness notes (rendered lazily under
// the model, so recording does not fork).
func VxNoteToks(toks []token.Token) {
	vx.Notef("ntokens=%d", len(toks))
	for k, t := range toks {
		vx.Notef("tok[%d] %d %q", k, int(t.Type), t.Literal)
	}
}

var _ = fmt.Sprint
