package parser

// Shared machinery for C07 / C08 / C11 / C12: the low-level entry points behind a
// uniform interface, outcome comparison, and a counting context.

import (
	"context"
	"errors"
	"time"

	goerrors "github.com/ajitpratap0/GoSQLX/pkg/errors"
	"github.com/ajitpratap0/GoSQLX/pkg/models"
	"github.com/ajitpratap0/GoSQLX/pkg/sql/ast"
	"github.com/ajitpratap0/GoSQLX/pkg/sql/token"
	vx "github.com/ajitpratap0/GoSQLX/zzvx"
)

// vxCtx turns done at the k-th poll (k symbolic) and stays done (monotone).
type vxCtx struct {
	k, n int
	kind error
}

func (c *vxCtx) Deadline() (time.Time, bool) { return time.Time{}, false }
func (c *vxCtx) Done() <-chan struct{}       { return nil }
func (c *vxCtx) Value(any) any               { return nil }
func (c *vxCtx) Err() error {
	c.n++
	if c.n > c.k {
		return c.kind
	}
	return nil
}

var _ context.Context = (*vxCtx)(nil)

func vxNeverCtx() *vxCtx { return &vxCtx{k: 1 << 30} }

const (
	epParse = iota
	epParseContext
	epParseWithPositions
	epRecovery
	epCount
)

type vxOutcome struct {
	ok    bool
	code  string
	line  int
	col   int
	stmts []ast.Statement
	nerr  int
}

func vxErrInfo(err error) (string, int, int) {
	var se *goerrors.Error
	if errors.As(err, &se) {
		return string(se.Code), se.Location.Line, se.Location.Column
	}
	return "unstructured", 0, 0
}

func vxPositions(n int) []TokenPosition {
	pos := make([]TokenPosition, n)
	for k := range pos {
		pos[k] = TokenPosition{OriginalIndex: k, Start: models.Location{Line: 1, Column: 1 + 2*k}, End: models.Location{Line: 1, Column: 2 + 2*k}}
	}
	return pos
}

// vxRunEP runs one entry point on toks.
func vxRunEP(p *Parser, ep int, toks []token.Token) vxOutcome {
	var o vxOutcome
	var tree *ast.AST
	var err error
	switch ep {
	case epParse:
		tree, err = p.Parse(toks)
	case epParseContext:
		tree, err = p.ParseContext(vxNeverCtx(), toks)
	case epParseWithPositions:
		tree, err = p.ParseWithPositions(&ConversionResult{Tokens: toks, PositionMapping: vxPositions(len(toks))})
	case epRecovery:
		stmts, errs := p.ParseWithRecovery(toks)
		o.stmts = stmts
		o.nerr = len(errs)
		o.ok = len(errs) == 0
		if len(errs) > 0 {
			o.code, o.line, o.col = vxErrInfo(errs[0])
		}
		return o
	}
	o.ok = err == nil
	if err != nil {
		o.nerr = 1
		o.code, o.line, o.col = vxErrInfo(err)
	} else if tree != nil {
		o.stmts = tree.Statements
	}
	return o
}

// vxHasContent: at least one token other than semicolons / EOF (C07 / C12 side condition).
func vxHasContent(toks []token.Token) bool {
	n := 0
	for _, t := range toks {
		if t.Type != models.TokenTypeSemicolon && t.Type != models.TokenTypeEOF {
			n++
		}
	}
	return n > 0
}

func vxSameStmts(a, b []ast.Statement) bool {
	if len(a) != len(b) {
		return false
	}
	for k := range a {
		if !vx.DeepEqual(a[k], b[k]) {
			return false
		}
	}
	return true
}
