package parser

import (
	"github.com/ajitpratap0/GoSQLX/pkg/models"
	"github.com/ajitpratap0/GoSQLX/pkg/sql/ast"
	"github.com/ajitpratap0/GoSQLX/pkg/sql/token"
	vx "github.com/ajitpratap0/GoSQLX/zzvx"
)

// C12 (1): token soup — termination (unwinding budget) and "errors iff strict parsing fails".
func vxRecoverySoup(prefix string, tab *VxTable, maxK int) {
	toks := append([]token.Token{}, VxFixed(prefix)...)
	toks = append(toks, tab.Toks(maxK)...)
	toks = append(toks, VxEOF)
	vx.Assume(vxHasContent(toks))
	VxNoteToks(toks)
	stmts, errs := NewParser().ParseWithRecovery(toks)
	_, err := NewParser().Parse(toks)
	vx.Notef("strict ok=%v recovery errors=%d statements=%d", err == nil, len(errs), len(stmts))
	vx.Assertf("C12.iff", (len(errs) >= 1) == (err != nil), "strict parsing ok=%v but recovery reports %d errors", err == nil, len(errs))
	for _, e := range errs {
		pe, ok := e.(*ParseError)
		vx.Assertf("C12.error_type", ok && pe != nil, "recovery error is %T", e)
		if ok && pe != nil {
			vx.Assertf("C12.token_idx", pe.TokenIdx >= 0 && pe.TokenIdx < len(toks), "TokenIdx %d outside 0..%d", pe.TokenIdx, len(toks)-1)
		}
	}
}

func VxC12_Soup_Start3() { vxRecoverySoup("", VxStmtTable, 3) }
func VxC12_Soup_Semi3()  { vxRecoverySoup("SELECT a FROM t ;", VxStmtTable, 3) }
func VxC12_Soup_Start4() { vxRecoverySoup("", VxStmtTable, 4) }
func VxC12_Soup_Semi4()  { vxRecoverySoup("SELECT a FROM t ;", VxStmtTable, 4) }

// C12 (2): S1 ; S2 ; S3 with a symbolic corruption per statement.
var vxGoodStmts = []string{
	"SELECT a FROM t WHERE a = 1",
	"SHOW TABLES",
	"DELETE FROM t WHERE b > 2",
	"SELECT b , c FROM u ORDER BY b LIMIT 5",
	"DROP TABLE t",
	"TRUNCATE TABLE t",
	"CREATE TABLE t ( a INT )",
	"INSERT INTO t ( a ) VALUES ( 1 )",
}

var vxJunk = VxMakeTable(vxLexRows([]string{"a", "1", ")", "(", ",", "=", "FROM", "WHERE", "AND", "LIMIT", "BY", "TABLES"}))

func vxCorrupt(s []token.Token) []token.Token {
	kind := vx.Choice(5)
	if kind == 0 {
		return s
	}
	j := vx.Choice(len(s))
	out := make([]token.Token, 0, len(s)+1)
	switch kind {
	case 1: // delete token j
		out = append(out, s[:j]...)
		out = append(out, s[j+1:]...)
	case 2: // duplicate token j
		out = append(out, s[:j+1]...)
		out = append(out, s[j:]...)
	case 3: // replace token j
		out = append(out, s[:j]...)
		out = append(out, vxJunk.Tok())
		out = append(out, s[j+1:]...)
	case 4: // truncate before token j
		out = append(out, s[:j]...)
	}
	return out
}

func vxIsStart(t token.Token) bool {
	p := &Parser{currentToken: t}
	return p.isStatementStartingKeyword()
}

func vxScript(n int) { vxScriptQ(n, false) }

// vxScriptQ: with onlyOne, at most one statement of the script is corrupted (cheaper).
func vxScriptQ(n int, onlyOne bool) {
	corruptAt := -1
	if onlyOne {
		corruptAt = vx.Choice(n)
	}
	var toks []token.Token
	type seg struct {
		from, to int
		ok       bool
		tree     ast.Statement
	}
	var segs []seg
	for k := 0; k < n; k++ {
		which := vx.Choice(len(vxGoodStmts))
		s := VxFixed(vxGoodStmts[which])
		if !onlyOne || k == corruptAt {
			s = vxCorrupt(s)
		}
		vx.Assume(len(s) > 0)
		// side condition of the property: no statement-starting keyword after the first token
		for j := 1; j < len(s); j++ {
			vx.Assume(!vxIsStart(s[j]))
		}
		// parsed alone with its own terminator, so both parses see the same follow token
		alone := append(append([]token.Token{}, s...), token.Token{Type: models.TokenTypeSemicolon, Literal: ";"}, VxEOF)
		tr, err := NewParser().Parse(alone)
		sg := seg{from: len(toks), to: len(toks) + len(s), ok: err == nil}
		if err == nil && len(tr.Statements) == 1 {
			sg.tree = tr.Statements[0]
		} else if err == nil {
			vx.Assume(false) // a corruption that makes two statements out of one is outside the model
		}
		segs = append(segs, sg)
		toks = append(toks, s...)
		toks = append(toks, token.Token{Type: models.TokenTypeSemicolon, Literal: ";"})
	}
	toks = append(toks, VxEOF)
	VxNoteToks(toks)
	stmts, errs := NewParser().ParseWithRecovery(toks)
	bad := 0
	for _, sg := range segs {
		if !sg.ok {
			bad++
		}
	}
	vx.Notef("segments=%d malformed=%d recovery: statements=%d errors=%d", n, bad, len(stmts), len(errs))
	vx.Assertf("C12.one_error_per_malformed", len(errs) == bad, "%d malformed statements but %d errors", bad, len(errs))
	// precisely the trees of the well-formed statements: nothing extra, no nil entry
	vx.Assertf("C12.exactly_the_good", len(stmts) == n-bad, "%d well-formed statements, %d statements returned", n-bad, len(stmts))
	for k, st := range stmts {
		vx.Assertf("C12.no_nil_statement", st != nil && !vx.IsNilPtr(st), "returned statement %d is nil", k)
	}
	// no good statement is lost, order preserved
	pos := 0
	for k, sg := range segs {
		if !sg.ok {
			continue
		}
		found := false
		for pos < len(stmts) {
			if vx.DeepEqual(stmts[pos], sg.tree) {
				found = true
				pos++
				break
			}
			pos++
		}
		vx.Assertf("C12.no_loss", found, "well-formed statement %d is missing from (or out of order in) the recovered statements", k)
	}
	// each error names a token inside its own statement
	e := 0
	for k, sg := range segs {
		if sg.ok || e >= len(errs) {
			continue
		}
		pe, ok := errs[e].(*ParseError)
		e++
		if ok && pe != nil {
			vx.Assertf("C12.error_in_own_statement", pe.TokenIdx >= sg.from && pe.TokenIdx <= sg.to, "error for statement %d names token %d, statement spans %d..%d", k, pe.TokenIdx, sg.from, sg.to)
		}
	}
}

func VxC12_Script2()  { vxScript(2) }
func VxC12_Script2q() { vxScriptQ(2, true) }
func VxC12_Script3q() { vxScriptQ(3, true) }
func VxC12_Script3()  { vxScript(3) }

// twins: the same corruption of the same statement twice (optionally around a good statement): two
// malformed statements that fail identically are still two errors.
func VxC12_Twins() {
	which := vx.Choice(len(vxGoodStmts))
	base := VxFixed(vxGoodStmts[which])
	bad := vxCorrupt(base)
	vx.Assume(len(bad) > 0)
	for j := 1; j < len(bad); j++ {
		vx.Assume(!vxIsStart(bad[j]))
	}
	semi := token.Token{Type: models.TokenTypeSemicolon, Literal: ";"}
	alone := append(append([]token.Token{}, bad...), semi, VxEOF)
	_, err := NewParser().Parse(alone)
	if err == nil {
		return // the corruption left a well-formed statement
	}
	var toks []token.Token
	toks = append(toks, bad...)
	toks = append(toks, semi)
	middle := vx.Bool()
	if middle {
		toks = append(toks, VxFixed("SELECT 1")...)
		toks = append(toks, semi)
	}
	toks = append(toks, bad...)
	toks = append(toks, semi, VxEOF)
	VxNoteToks(toks)
	stmts, errs := NewParser().ParseWithRecovery(toks)
	want := 0
	if middle {
		want = 1
	}
	vx.Assertf("C12.one_error_per_malformed", len(errs) == 2, "two malformed statements but %d errors", len(errs))
	vx.Assertf("C12.exactly_the_good", len(stmts) == want, "%d well-formed statements, %d statements returned", want, len(stmts))
	for k, st := range stmts {
		vx.Assertf("C12.no_nil_statement", st != nil && !vx.IsNilPtr(st), "returned statement %d is nil", k)
	}
}

// triples: a good statement, then a statement that is a complete prefix plus stray tokens, then a
// statement that fails at its first token - recovery bookkeeping carried from one malformed
// statement to the next must not cost an earlier good statement.
var vxStrays = []string{"x x", "1", ") )", ", a", "x", ""}
var vxBadStarts = []string{"FROM orders WHERE id = 1", ") SELECT", "x y z", "1 + 2", "WHERE a", "SELECT FROM"}

func VxC12_Triples() {
	semi := token.Token{Type: models.TokenTypeSemicolon, Literal: ";"}
	good := VxFixed(vxGoodStmts[vx.Choice(len(vxGoodStmts))])
	second := append(append([]token.Token{}, VxFixed(vxGoodStmts[vx.Choice(len(vxGoodStmts))])...), VxFixed(vxStrays[vx.Choice(len(vxStrays))])...)
	third := VxFixed(vxBadStarts[vx.Choice(len(vxBadStarts))])
	order := vx.Choice(3) // where the good statement stands
	parts := [][]token.Token{good, second, third}
	if order == 1 {
		parts = [][]token.Token{second, good, third}
	} else if order == 2 {
		parts = [][]token.Token{second, third, good}
	}
	var toks []token.Token
	wantStmts, wantErrs := 0, 0
	for _, p := range parts {
		for j := 1; j < len(p); j++ {
			vx.Assume(!vxIsStart(p[j]))
		}
		alone := append(append([]token.Token{}, p...), semi, VxEOF)
		tr, err := NewParser().Parse(alone)
		if err != nil {
			wantErrs++
		} else {
			vx.Assume(len(tr.Statements) == 1)
			wantStmts++
		}
		toks = append(toks, p...)
		toks = append(toks, semi)
	}
	toks = append(toks, VxEOF)
	VxNoteToks(toks)
	stmts, errs := NewParser().ParseWithRecovery(toks)
	vx.Assertf("C12.one_error_per_malformed", len(errs) == wantErrs, "%d malformed statements but %d errors", wantErrs, len(errs))
	vx.Assertf("C12.exactly_the_good", len(stmts) == wantStmts, "%d well-formed statements, %d statements returned", wantStmts, len(stmts))
}
