package parser

import (
	"errors"

	goerrors "github.com/ajitpratap0/GoSQLX/pkg/errors"
	"github.com/ajitpratap0/GoSQLX/pkg/sql/token"
	vx "github.com/ajitpratap0/GoSQLX/zzvx"
)

// C02-A: every recursion is accounted for. Any *Parser method that is re-entered while an
// activation of it is live must see a strictly larger p.depth than that activation saw.
func vxReentry(prefix string, tab *VxTable, maxK int) {
	toks := append([]token.Token{}, VxFixed(prefix)...)
	toks = append(toks, tab.Toks(maxK)...)
	toks = append(toks, VxEOF)
	VxNoteToks(toks)
	p := NewParser()
	p.depth = vx.Small(90) // arbitrary nesting context below the limit
	vx.WatchReentryAll("Parser", "depth", "C02.reentry_accounted")
	_, _ = p.Parse(toks)
}

func VxC02_Reentry_Start3()  { vxReentry("", VxStmtTable, 3) }
func VxC02_Reentry_Select3() { vxReentry("SELECT", VxStmtTable, 3) }
func VxC02_Reentry_From3()   { vxReentry("SELECT * FROM", VxStmtTable, 3) }
func VxC02_Reentry_Join3()   { vxReentry("SELECT * FROM t JOIN", VxStmtTable, 3) }
func VxC02_Reentry_Where3()  { vxReentry("SELECT a FROM t WHERE", VxStmtTable, 3) }
func VxC02_Reentry_Start4()  { vxReentry("", VxStmtTable, 4) }
func VxC02_Reentry_Select4() { vxReentry("SELECT", VxStmtTable, 4) }
func VxC02_Reentry_From4()   { vxReentry("SELECT * FROM", VxStmtTable, 4) }
func VxC02_Reentry_Join4()   { vxReentry("SELECT * FROM t JOIN", VxStmtTable, 4) }
func VxC02_Reentry_Where4()  { vxReentry("SELECT a FROM t WHERE", VxStmtTable, 4) }

// C02-A': every recursion cycle enforces the limit. Started at or above the documented limit, no
// *Parser method may be re-entered while active: a completed cycle means its increment was not
// followed by a limit check (nesting through that cycle is counted but unbounded).
func vxReentryLimited(prefix string, tab *VxTable, maxK int) {
	toks := append([]token.Token{}, VxFixed(prefix)...)
	toks = append(toks, tab.Toks(maxK)...)
	toks = append(toks, VxEOF)
	VxNoteToks(toks)
	p := NewParser()
	p.depth = 97 + vx.Small(6) // 97..99: re-entries are legal (reachability witness of the assertion); 100..102: none may complete
	vx.WatchReentryAll("Parser", "depth", "C02.reentry_accounted")
	vx.ReentryLimit(100, "C02.reentry_limited")
	_, _ = p.Parse(toks)
}

func VxC02_Limited_Start3()  { vxReentryLimited("", VxStmtTable, 3) }
func VxC02_Limited_Select3() { vxReentryLimited("SELECT", VxStmtTable, 3) }
func VxC02_Limited_From3()   { vxReentryLimited("SELECT * FROM", VxStmtTable, 3) }
func VxC02_Limited_Join3()   { vxReentryLimited("SELECT * FROM t JOIN", VxStmtTable, 3) }
func VxC02_Limited_Where3()  { vxReentryLimited("SELECT a FROM t WHERE", VxStmtTable, 3) }
func VxC02_Limited_Start4()  { vxReentryLimited("", VxStmtTable, 4) }
func VxC02_Limited_Select4() { vxReentryLimited("SELECT", VxStmtTable, 4) }
func VxC02_Limited_From4()   { vxReentryLimited("SELECT * FROM", VxStmtTable, 4) }
func VxC02_Limited_Join4()   { vxReentryLimited("SELECT * FROM t JOIN", VxStmtTable, 4) }
func VxC02_Limited_Where4()  { vxReentryLimited("SELECT a FROM t WHERE", VxStmtTable, 4) }

// C02-B: the documented limit (100) is enforced exactly, for every current depth.
func VxC02_DepthLimit() {
	p := NewParser()
	p.tokens = append(VxFixed("a"), VxEOF)
	p.currentPos = 0
	p.currentToken = p.tokens[0]
	d := vx.Small(201)
	p.depth = d
	vx.Notef("depth=%d", d)
	_, err := p.parseExpression()
	var se *goerrors.Error
	limit := err != nil && errors.As(err, &se) && se.Code == goerrors.ErrCodeRecursionDepthLimit
	// entering at depth d means nesting level d+1
	vx.Assertf("C02.depth_reject", d+1 <= 100 || limit, "nesting level %d not rejected with E2007", d+1)
	vx.Assertf("C02.depth_accept", d+1 > 100 || err == nil, "nesting level %d (within the limit) rejected: %v", d+1, err)
	vx.Assert("C02.depth_restored", p.depth == d)
}

func VxC02_DepthLimitCTE() {
	p := NewParser()
	p.tokens = append(VxFixed("c AS ( SELECT 1 )"), VxEOF)
	p.currentPos = 0
	p.currentToken = p.tokens[0]
	d := vx.Small(201)
	p.depth = d
	vx.Notef("depth=%d", d)
	_, err := p.parseCommonTableExpr()
	vx.Assertf("C02.cte_depth_reject", d+1 <= 100 || err != nil, "CTE nesting level %d accepted", d+1)
	// the CTE body "SELECT 1" itself nests two further levels (statement, expression)
	vx.Assertf("C02.cte_depth_accept", d+3 > 100 || err == nil, "CTE at nesting level %d with a 2-level body (within the limit) rejected: %v", d+1, err)
	vx.Assert("C02.depth_restored", p.depth == d)
}
