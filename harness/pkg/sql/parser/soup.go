package parser

import (
	"errors"

	"github.com/ajitpratap0/GoSQLX/pkg/sql/ast"

	goerrors "github.com/ajitpratap0/GoSQLX/pkg/errors"
	"github.com/ajitpratap0/GoSQLX/pkg/sql/token"
	vx "github.com/ajitpratap0/GoSQLX/zzvx"
)

func vxOpts() []ParserOption {
	var opts []ParserOption
	if vx.Bool() {
		opts = append(opts, WithStrictMode())
	}
	switch vx.Choice(4) {
	case 1:
		opts = append(opts, WithDialect("mysql"))
	case 2:
		opts = append(opts, WithDialect("postgresql"))
	case 3:
		opts = append(opts, WithDialect("sqlserver"))
	}
	return opts
}

// vxSoup: arbitrary token sequences (optionally after a concrete prefix) into the
// low-level parser: totality (C01), structured errors (C13).
func vxSoup(prefix string, tab *VxTable, maxK int) {
	vxSoupToks(append([]token.Token{}, VxFixed(prefix)...), tab, maxK)
}

func vxSoupToks(toks []token.Token, tab *VxTable, maxK int) {
	vxSoupRun(toks, tab, maxK, vxOpts)
}

// dialect only (the truncation corpus is explored without strict mode)
func vxDialectOpts() []ParserOption {
	switch vx.Choice(4) {
	case 1:
		return []ParserOption{WithDialect("mysql")}
	case 2:
		return []ParserOption{WithDialect("postgresql")}
	case 3:
		return []ParserOption{WithDialect("sqlserver")}
	}
	return nil
}

func vxSoupRun(toks []token.Token, tab *VxTable, maxK int, mkOpts func() []ParserOption) {
	toks = append(toks, tab.Toks(maxK)...)
	if vx.Bool() {
		toks = append(toks, VxEOF)
	}
	p := NewParser(mkOpts()...)
	VxNoteToks(toks)
	tree, err := p.Parse(toks)
	vx.Notef("accepted=%v", err == nil)
	vx.Assert("C01.value_or_error", (tree != nil) != (err != nil))
	// C08: a finished parse - accepted or not - leaves the nesting counter where it found it
	vx.Assertf("C08.depth_zero_after_parse", p.depth == 0, "nesting depth is %d after Parse returned (accepted=%v)", p.depth, err == nil)
	if err != nil {
		vxCheckError(err)
		return
	}
	// accepted: the serialiser and traversal must be total on the tree
	_ = tree.SQL()
	n := 0
	for _, s := range tree.Statements {
		if s != nil {
			n++
		}
	}
	vx.Assert("C01.no_nil_statement", n == len(tree.Statements))
	// C14 on parser-produced trees: every node pointer reachable through the tree's fields is visited
	reach := vx.Reach(tree, (*ast.Node)(nil))
	var seen []any
	ast.Inspect(tree, func(nd ast.Node) bool {
		if nd != nil {
			seen = append(seen, nd)
		}
		return true
	})
	for k, r := range reach {
		if vx.SameObject(r, tree) {
			continue
		}
		hit := false
		for _, sn := range seen {
			if vx.SameObject(r, sn) {
				hit = true
			}
		}
		vx.Assertf("C14.tree_visits", hit, "node #%d of the parsed tree (%s) is never visited by Inspect", k, vx.Dump(r))
	}
}

// vxCheckError: C13 — structured error, parser code family, message, location.
func vxCheckError(err error) {
	var se *goerrors.Error
	ok := errors.As(err, &se)
	vx.Assertf("C13.structured", ok, "error is not a *errors.Error: %v", err)
	if !ok {
		return
	}
	code := string(se.Code)
	vx.Assertf("C13.family", len(code) == 5 && code[0] == 'E' && code[1] == '2', "parser failure reported with code %s", code)
	vx.Assert("C13.message", se.Message != "")
	vx.Assert("C13.location_nonneg", se.Location.Line >= 0 && se.Location.Column >= 0)
}

func VxSoup_Start2()  { vxSoup("", VxHostileTable, 2) }
func VxSoup_Where2()  { vxSoup("SELECT a FROM t WHERE", VxHostileTable, 2) }
func VxSoup_Select2() { vxSoup("SELECT", VxHostileTable, 2) }
func VxSoup_From2()   { vxSoup("SELECT a FROM", VxHostileTable, 2) }
func VxSoup_Start3()  { vxSoup("", VxHostileTable, 3) }
func VxSoup_Start4()  { vxSoup("", VxHostileTable, 4) }
func VxSoup_Where3()  { vxSoup("SELECT a FROM t WHERE", VxHostileTable, 3) }
func VxSoup_Where4()  { vxSoup("SELECT a FROM t WHERE", VxHostileTable, 4) }
func VxSoup_Select3() { vxSoup("SELECT", VxHostileTable, 3) }
func VxSoup_Select4() { vxSoup("SELECT", VxHostileTable, 4) }
func VxSoup_From3()   { vxSoup("SELECT a FROM", VxHostileTable, 3) }
func VxSoup_From4()   { vxSoup("SELECT a FROM", VxHostileTable, 4) }

// ---- truncations: every prefix of a corpus of construct-rich (and degenerate: empty lists, empty constructors) statements, continued by <= maxK
// symbolic tokens (the classic place for "loop until ')'" productions to miss the end of input)

var vxCutCorpus = []string{
	"SELECT a FROM t WHERE MATCH ( a , b ) AGAINST ( 'x' IN BOOLEAN MODE )",
	"SELECT CASE a WHEN 1 THEN 'x' ELSE 'y' END , CAST ( a AS DECIMAL ( 10 , 2 ) ) FROM t",
	"SELECT SUM ( a ) FILTER ( WHERE b > 1 ) OVER ( PARTITION BY c ORDER BY d ROWS BETWEEN 1 PRECEDING AND UNBOUNDED FOLLOWING ) FROM t",
	"SELECT a FROM t GROUP BY ROLLUP ( a , b ) , CUBE ( c ) , GROUPING SETS ( ( a ) , ( ) )",
	"SELECT a FROM t ORDER BY a DESC NULLS LAST LIMIT 1 OFFSET 2 FETCH FIRST 3 ROWS ONLY FOR UPDATE OF t NOWAIT",
	"SELECT a -> 'k' , b #> '{x}' , c [ 1 ] , ARRAY [ 1 , 2 ] , INTERVAL '1 day' FROM t",
	"SELECT a FROM t LEFT OUTER JOIN u USING ( a , b ) NATURAL JOIN v CROSS JOIN LATERAL ( SELECT 1 ) x",
	"SELECT a FROM t WHERE a IN ( SELECT b FROM u ) AND EXISTS ( SELECT 1 ) AND b BETWEEN 1 AND 2 AND c LIKE 'x' ESCAPE '!' AND d IS NOT NULL",
	"SELECT a FROM t WHERE a = ANY ( SELECT b FROM u ) OR a > ALL ( SELECT c FROM v )",
	"SELECT SUBSTRING ( a FROM 1 FOR 2 ) , EXTRACT ( YEAR FROM b ) , POSITION ( 'x' IN c ) FROM t",
	"WITH RECURSIVE c ( a , b ) AS ( SELECT 1 , 2 UNION ALL SELECT a , b FROM c ) SELECT a FROM c",
	"SELECT a FROM t UNION SELECT b FROM u EXCEPT SELECT c FROM v INTERSECT SELECT d FROM w",
	"INSERT INTO t ( a , b ) VALUES ( 1 , 'x' ) , ( 2 , DEFAULT ) ON CONFLICT ( a ) DO UPDATE SET b = 1 WHERE a > 0 RETURNING a , b",
	"INSERT INTO t ( a ) VALUES ( 1 ) ON DUPLICATE KEY UPDATE a = 2",
	"REPLACE INTO t ( a ) VALUES ( 1 )",
	"UPDATE t SET a = 1 , b = ( SELECT 1 ) WHERE c = 2 RETURNING a",
	"DELETE FROM t WHERE a = 1 RETURNING a",
	"MERGE INTO t x USING u y ON x . a = y . a WHEN MATCHED AND y . b > 1 THEN UPDATE SET a = y . a WHEN NOT MATCHED THEN INSERT ( a ) VALUES ( y . a ) WHEN NOT MATCHED BY SOURCE THEN DELETE",
	"CREATE TABLE IF NOT EXISTS t ( a INT PRIMARY KEY NOT NULL DEFAULT 1 , b VARCHAR ( 10 ) REFERENCES u ( b ) ON DELETE CASCADE ON UPDATE SET NULL , CONSTRAINT c UNIQUE ( a , b ) , CHECK ( a > 0 ) , FOREIGN KEY ( a ) REFERENCES v ( a ) ) PARTITION BY RANGE ( a )",
	"CREATE UNIQUE INDEX IF NOT EXISTS i ON t USING btree ( a DESC , b ) WHERE a > 0",
	"CREATE OR REPLACE VIEW v ( a , b ) AS SELECT a , b FROM t WITH CHECK OPTION",
	"CREATE MATERIALIZED VIEW IF NOT EXISTS m AS SELECT a FROM t WITH NO DATA",
	"REFRESH MATERIALIZED VIEW CONCURRENTLY m WITH DATA",
	"ALTER TABLE t ADD COLUMN a INT NOT NULL , DROP COLUMN b CASCADE , ALTER COLUMN c SET DEFAULT 1 , RENAME TO u",
	"ALTER ROLE r WITH SUPERUSER PASSWORD 'x' VALID UNTIL 'y' CONNECTION LIMIT 5",
	"ALTER POLICY p ON t TO r USING ( a > 0 ) WITH CHECK ( b > 0 )",
	"DROP TABLE IF EXISTS t , u CASCADE",
	"TRUNCATE TABLE t , u RESTART IDENTITY CASCADE",
	"SHOW TABLES FROM d",
	"DESCRIBE t",
	"SELECT TOP 5 a FROM t",
	"SELECT DISTINCT ON ( a ) a , b FROM t WINDOW w AS ( PARTITION BY a )",
	"SELECT LISTAGG ( a , ',' ) WITHIN GROUP ( ORDER BY a ) FROM t",
	"SELECT a :: INT , - b , NOT c , ( d , e ) , f || g FROM t WHERE ( a , b ) IN ( ( 1 , 2 ) )",
	// empty and degenerate constructs
	"SELECT ARRAY [ ] , ARRAY ( SELECT 1 ) , COUNT ( ) , f ( * ) , ( ) FROM t",
	"SELECT a FROM t WHERE a IN ( ) OR EXISTS ( ) GROUP BY ( ) , GROUPING SETS ( ( ) )",
	"INSERT INTO t ( ) VALUES ( ) , ( )",
	"INSERT INTO t DEFAULT VALUES",
	"CREATE TABLE t ( )",
	"WITH c AS ( ) SELECT 1",
	"SELECT CASE END , CASE WHEN 1 THEN 2 END , CAST ( a AS ) FROM t",
	"SELECT a FROM t LEFT JOIN u ON t . a = u . a JOIN v ON u . b = v . b CROSS JOIN w JOIN x USING ( a )",
	"INSERT INTO t ( a , b ) VALUES ( 1 , 2 ) , ( 3 , 4 ) , ( 5 , 6 )",
	"SELECT a FROM t WHERE a IN ( WITH c AS ( SELECT 1 ) SELECT b FROM c ) AND EXISTS ( WITH d AS ( SELECT 2 ) SELECT 1 FROM d )",
	"SELECT a FROM ( SELECT b FROM ( SELECT c FROM u ) x ) y WHERE a = ( SELECT MAX ( b ) FROM v )",
	"SELECT a FROM t WHERE a NOT LIKE 'x' AND b NOT ILIKE 'y' AND c NOT IN ( 1 ) AND d NOT BETWEEN 1 AND 2 AND e IS NOT NULL",
	"SELECT COUNT ( * ) FROM t HAVING COUNT ( * ) > ( SELECT MAX ( n ) FROM l )",
}

var vxCutToks = func() [][]token.Token {
	var out [][]token.Token
	for _, s := range vxCutCorpus {
		out = append(out, VxFixed(s))
	}
	return out
}()

func vxSoupCut(tab *VxTable, maxK int) {
	s := vx.Choice(len(vxCutToks))
	full := vxCutToks[s]
	c := vx.Choice(len(full) + 1)
	vx.Assume(c <= len(full))
	vxSoupRun(append([]token.Token{}, full[:c]...), tab, maxK, vxDialectOpts)
}

func VxSoup_Cut0() { vxSoupCut(VxHostileTable, 0) }
func VxSoup_Cut1() { vxSoupCut(VxHostileTable, 1) }
func VxSoup_Cut2() { vxSoupCut(VxHostileTable, 2) }
