package parser

import (
	"errors"

	"github.com/ajitpratap0/GoSQLX/pkg/sql/ast"

	goerrors "github.com/ajitpratap0/GoSQLX/pkg/errors"
	"github.com/ajitpratap0/GoSQLX/pkg/sql/token"
	vx "github.com/ajitpratap0/GoSQLX/zzvx"
)

func vxOpts() []ParserOption {
	var opts []ParserOption
	if vx.Bool() {
		opts = append(opts, WithStrictMode())
	}
	switch vx.Choice(4) {
	case 1:
		opts = append(opts, WithDialect("mysql"))
	case 2:
		opts = append(opts, WithDialect("postgresql"))
	case 3:
		opts = append(opts, WithDialect("sqlserver"))
	}
	return opts
}

// vxSoup: arbitrary token sequences (optionally after a concrete prefix) into the
// low-level parser: totality (C01), structured errors (C13).
func vxSoup(prefix string, tab *VxTable, maxK int) {
	toks := append([]token.Token{}, VxFixed(prefix)...)
	toks = append(toks, tab.Toks(maxK)...)
	if vx.Bool() {
		toks = append(toks, VxEOF)
	}
	p := NewParser(vxOpts()...)
	VxNoteToks(toks)
	tree, err := p.Parse(toks)
	vx.Notef("accepted=%v", err == nil)
	vx.Assert("C01.value_or_error", (tree != nil) != (err != nil))
	if err != nil {
		vxCheckError(err)
		return
	}
	// accepted: the serialiser and traversal must be total on the tree
	_ = tree.SQL()
	n := 0
	for _, s := range tree.Statements {
		if s != nil {
			n++
		}
	}
	vx.Assert("C01.no_nil_statement", n == len(tree.Statements))
	// C14 on parser-produced trees: every node pointer reachable through the tree's fields is visited
	reach := vx.Reach(tree, (*ast.Node)(nil))
	var seen []any
	ast.Inspect(tree, func(nd ast.Node) bool {
		if nd != nil {
			seen = append(seen, nd)
		}
		return true
	})
	for k, r := range reach {
		if vx.SameObject(r, tree) {
			continue
		}
		hit := false
		for _, sn := range seen {
			if vx.SameObject(r, sn) {
				hit = true
			}
		}
		vx.Assertf("C14.tree_visits", hit, "node #%d of the parsed tree (%s) is never visited by Inspect", k, vx.Dump(r))
	}
}

// vxCheckError: C13 — structured error, parser code family, message, location.
func vxCheckError(err error) {
	var se *goerrors.Error
	ok := errors.As(err, &se)
	vx.Assertf("C13.structured", ok, "error is not a *errors.Error: %v", err)
	if !ok {
		return
	}
	code := string(se.Code)
	vx.Assertf("C13.family", len(code) == 5 && code[0] == 'E' && code[1] == '2', "parser failure reported with code %s", code)
	vx.Assert("C13.message", se.Message != "")
	vx.Assert("C13.location_nonneg", se.Location.Line >= 0 && se.Location.Column >= 0)
}

func VxSoup_Start2()  { vxSoup("", VxHostileTable, 2) }
func VxSoup_Where2()  { vxSoup("SELECT a FROM t WHERE", VxHostileTable, 2) }
func VxSoup_Select2() { vxSoup("SELECT", VxHostileTable, 2) }
func VxSoup_From2()   { vxSoup("SELECT a FROM", VxHostileTable, 2) }
func VxSoup_Start3()  { vxSoup("", VxHostileTable, 3) }
func VxSoup_Start4()  { vxSoup("", VxHostileTable, 4) }
func VxSoup_Where3()  { vxSoup("SELECT a FROM t WHERE", VxHostileTable, 3) }
func VxSoup_Where4()  { vxSoup("SELECT a FROM t WHERE", VxHostileTable, 4) }
func VxSoup_Select3() { vxSoup("SELECT", VxHostileTable, 3) }
func VxSoup_Select4() { vxSoup("SELECT", VxHostileTable, 4) }
func VxSoup_From3()   { vxSoup("SELECT a FROM", VxHostileTable, 3) }
func VxSoup_From4()   { vxSoup("SELECT a FROM", VxHostileTable, 4) }
