package parser

// C05 (parser side): the position mapping built by the token converter is index-aligned with the
// parser tokens it returns - entry k describes the source token that parser token k came from -
// for every sequence of <= N symbolic tokenizer tokens, including the multi-word keywords that
// expand into two parser tokens.

import (
	"errors"
	"strings"

	goerrors "github.com/ajitpratap0/GoSQLX/pkg/errors"
	"github.com/ajitpratap0/GoSQLX/pkg/models"
	"github.com/ajitpratap0/GoSQLX/pkg/sql/token"
	"github.com/ajitpratap0/GoSQLX/pkg/sql/tokenizer"
	vx "github.com/ajitpratap0/GoSQLX/zzvx"
)

var vxModelLexemes = []string{"a", "1", "'x'", ",", "(", ")", "*", "=", "SELECT", "FROM", "WHERE", "JOIN", "ON", "GROUP BY", "ORDER BY", "LEFT JOIN", "RIGHT JOIN",
	"INNER JOIN", "OUTER JOIN", "FULL JOIN", "CROSS JOIN", "NATURAL JOIN", "GROUPING SETS", "LEFT", "GROUP", "BY", ";"}

type vxModelRows struct {
	typs []int
	vals []string
}

var vxModelTable = func() vxModelRows {
	var r vxModelRows
	for _, s := range vxModelLexemes {
		tk, _ := tokenizer.New()
		mt, err := tk.Tokenize([]byte(s))
		if err != nil {
			panic("vx: lexeme does not tokenize: " + s)
		}
		for _, t := range mt {
			if t.Token.Type == models.TokenTypeEOF {
				continue
			}
			r.typs = append(r.typs, int(t.Token.Type))
			r.vals = append(r.vals, t.Token.Value)
		}
	}
	return r
}()

func vxMapping(maxK int) {
	k := vx.Choice(maxK + 1)
	var in []models.TokenWithSpan
	for j := 0; j < k; j++ {
		sel := vx.Small(len(vxModelTable.typs))
		in = append(in, models.TokenWithSpan{
			Token: models.Token{Type: models.TokenType(vx.PickInt(sel, vxModelTable.typs)), Value: vx.PickStr(sel, vxModelTable.vals)},
			Start: models.Location{Line: 1, Column: 10*j + 1},
			End:   models.Location{Line: 1, Column: 10*j + 9},
		})
		vx.Notef("in[%d] %d %q", j, int(in[j].Token.Type), in[j].Token.Value)
	}
	in = append(in, models.TokenWithSpan{Token: models.Token{Type: models.TokenTypeEOF}, Start: models.Location{Line: 1, Column: 10*k + 1}, End: models.Location{Line: 1, Column: 10*k + 1}})
	res, err := newTokenConverter().convert(in)
	if err != nil {
		vx.Notef("convert error: %v", err)
		return
	}
	vx.Notef("parser tokens=%d positions=%d", len(res.Tokens), len(res.PositionMapping))
	vx.Assertf("C05.mapping_aligned", len(res.PositionMapping) == len(res.Tokens), "%d parser tokens but %d position entries", len(res.Tokens), len(res.PositionMapping))
	prev := 0
	seen := make([]bool, len(in))
	for j, pm := range res.PositionMapping {
		ok := pm.OriginalIndex >= prev && pm.OriginalIndex < len(in)
		vx.Assertf("C05.mapping_monotone", ok, "entry %d refers to source token %d after %d", j, pm.OriginalIndex, prev)
		if !ok {
			return
		}
		prev = pm.OriginalIndex
		seen[pm.OriginalIndex] = true
		src := in[pm.OriginalIndex]
		vx.Assertf("C05.mapping_span", pm.Start == src.Start && pm.End == src.End, "entry %d carries %v-%v, its source token spans %v-%v", j, pm.Start, pm.End, src.Start, src.End)
	}
	for j := range in {
		vx.Assertf("C05.mapping_complete", seen[j], "source token %d has no parser token", j)
	}
	// the parser reads the mapping by token index: a failure must be located at a source token
	if len(res.PositionMapping) == len(res.Tokens) {
		p := NewParser()
		for j := range res.Tokens {
			p.tokens, p.positions, p.currentPos = res.Tokens, res.PositionMapping, j
			loc := p.currentLocation()
			vx.Assertf("C05.parser_location", loc == in[res.PositionMapping[j].OriginalIndex].Start, "parser token %d is located at %v, its source token starts at %v", j, loc, in[res.PositionMapping[j].OriginalIndex].Start)
		}
	}
}

func VxC05_Mapping2() { vxMapping(2) }
func VxC05_Mapping3() { vxMapping(3) }
func VxC05_Mapping4() { vxMapping(4) }

// ---- the token an error is located at is the token the error talks about: a statement of the
// truncation corpus that the parser accepts is corrupted at one token (cut there, deleted, or
// replaced by one of four fixed tokens); when the parser's message names the offending token
// ("got X" / "unexpected token: X") and carries a location, the token starting at that location
// must be X, and the location must be the start of some token of the input.

var vxBlameRepl = VxFixed(") SELECT x ,")

func vxBlame() {
	s := vx.Choice(len(vxCutToks))
	full := vxCutToks[s]
	opts := vxDialectOpts()
	if _, err := NewParser(opts...).Parse(append(append([]token.Token{}, full...), VxEOF)); err != nil {
		return // not an accepted statement under this dialect
	}
	k := vx.Choice(len(full))
	kind := vx.Choice(2 + len(vxBlameRepl))
	toks := append([]token.Token{}, full[:k]...)
	switch {
	case kind == 0: // cut
	case kind == 1: // delete
		toks = append(toks, full[k+1:]...)
	default:
		toks = append(toks, vxBlameRepl[kind-2])
		toks = append(toks, full[k+1:]...)
	}
	toks = append(toks, VxEOF)
	pos := make([]TokenPosition, len(toks))
	for j := range toks {
		pos[j] = TokenPosition{OriginalIndex: j, Start: models.Location{Line: 1 + j/8, Column: 10*(j%8) + 1}, End: models.Location{Line: 1 + j/8, Column: 10*(j%8) + 9}}
	}
	VxNoteToks(toks)
	vx.Notef("corrupted at %d kind=%d", k, kind)
	_, err := NewParser(opts...).ParseWithPositions(&ConversionResult{Tokens: toks, PositionMapping: pos})
	if err == nil {
		return
	}
	var se *goerrors.Error
	if !errors.As(err, &se) {
		return // judged by C13
	}
	loc := se.Location
	if loc.Line == 0 && loc.Column == 0 {
		return // no location claimed
	}
	at := -1
	for j := range pos {
		if pos[j].Start == loc {
			at = j
		}
	}
	vx.Assertf("C05.blame_is_a_token", at >= 0, "error located at %d:%d, where no token starts: %v", loc.Line, loc.Column, se.Message)
	if at < 0 {
		return
	}
	// the innermost "got X" / "unexpected token: X" of the message
	msg := err.Error()
	named := ""
	for _, key := range []string{"unexpected token: ", ", got "} {
		if j := strings.LastIndex(msg, key); j >= 0 {
			w := msg[j+len(key):]
			e := 0
			for e < len(w) && w[e] != ' ' && w[e] != '\n' && w[e] != '\t' {
				e++
			}
			named = w[:e]
		}
	}
	if named == "" {
		return
	}
	tk := toks[at]
	same := strings.EqualFold(named, tk.Type.String()) || strings.EqualFold(named, tk.Literal) || (named == "EOF" && tk.Type == models.TokenTypeEOF)
	vx.Assertf("C05.blame_names_its_token", same, "message names token %q but is located at %d:%d, where %q (%s) starts", named, loc.Line, loc.Column, tk.Literal, tk.Type.String())
}

func VxC05_Blame() { vxBlame() }
