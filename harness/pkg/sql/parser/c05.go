package parser

// C05 (parser side): the position mapping built by the token converter is index-aligned with the
// parser tokens it returns - entry k describes the source token that parser token k came from -
// for every sequence of <= N symbolic tokenizer tokens, including the multi-word keywords that
// expand into two parser tokens.

import (
	"github.com/ajitpratap0/GoSQLX/pkg/models"
	"github.com/ajitpratap0/GoSQLX/pkg/sql/tokenizer"
	vx "github.com/ajitpratap0/GoSQLX/zzvx"
)

var vxModelLexemes = []string{"a", "1", "'x'", ",", "(", ")", "*", "=", "SELECT", "FROM", "WHERE", "JOIN", "ON", "GROUP BY", "ORDER BY", "LEFT JOIN", "RIGHT JOIN",
	"INNER JOIN", "OUTER JOIN", "FULL JOIN", "CROSS JOIN", "NATURAL JOIN", "GROUPING SETS", "LEFT", "GROUP", "BY", ";"}

type vxModelRows struct {
	typs []int
	vals []string
}

var vxModelTable = func() vxModelRows {
	var r vxModelRows
	for _, s := range vxModelLexemes {
		tk, _ := tokenizer.New()
		mt, err := tk.Tokenize([]byte(s))
		if err != nil {
			panic("vx: lexeme does not tokenize: " + s)
		}
		for _, t := range mt {
			if t.Token.Type == models.TokenTypeEOF {
				continue
			}
			r.typs = append(r.typs, int(t.Token.Type))
			r.vals = append(r.vals, t.Token.Value)
		}
	}
	return r
}()

func vxMapping(maxK int) {
	k := vx.Choice(maxK + 1)
	var in []models.TokenWithSpan
	for j := 0; j < k; j++ {
		sel := vx.Small(len(vxModelTable.typs))
		in = append(in, models.TokenWithSpan{
			Token: models.Token{Type: models.TokenType(vx.PickInt(sel, vxModelTable.typs)), Value: vx.PickStr(sel, vxModelTable.vals)},
			Start: models.Location{Line: 1, Column: 10*j + 1},
			End:   models.Location{Line: 1, Column: 10*j + 9},
		})
		vx.Notef("in[%d] %d %q", j, int(in[j].Token.Type), in[j].Token.Value)
	}
	in = append(in, models.TokenWithSpan{Token: models.Token{Type: models.TokenTypeEOF}, Start: models.Location{Line: 1, Column: 10*k + 1}, End: models.Location{Line: 1, Column: 10*k + 1}})
	res, err := newTokenConverter().convert(in)
	if err != nil {
		vx.Notef("convert error: %v", err)
		return
	}
	vx.Notef("parser tokens=%d positions=%d", len(res.Tokens), len(res.PositionMapping))
	vx.Assertf("C05.mapping_aligned", len(res.PositionMapping) == len(res.Tokens), "%d parser tokens but %d position entries", len(res.Tokens), len(res.PositionMapping))
	prev := 0
	seen := make([]bool, len(in))
	for j, pm := range res.PositionMapping {
		ok := pm.OriginalIndex >= prev && pm.OriginalIndex < len(in)
		vx.Assertf("C05.mapping_monotone", ok, "entry %d refers to source token %d after %d", j, pm.OriginalIndex, prev)
		if !ok {
			return
		}
		prev = pm.OriginalIndex
		seen[pm.OriginalIndex] = true
		src := in[pm.OriginalIndex]
		vx.Assertf("C05.mapping_span", pm.Start == src.Start && pm.End == src.End, "entry %d carries %v-%v, its source token spans %v-%v", j, pm.Start, pm.End, src.Start, src.End)
	}
	for j := range in {
		vx.Assertf("C05.mapping_complete", seen[j], "source token %d has no parser token", j)
	}
	// the parser reads the mapping by token index: a failure must be located at a source token
	if len(res.PositionMapping) == len(res.Tokens) {
		p := NewParser()
		for j := range res.Tokens {
			p.tokens, p.positions, p.currentPos = res.Tokens, res.PositionMapping, j
			loc := p.currentLocation()
			vx.Assertf("C05.parser_location", loc == in[res.PositionMapping[j].OriginalIndex].Start, "parser token %d is located at %v, its source token starts at %v", j, loc, in[res.PositionMapping[j].OriginalIndex].Start)
		}
	}
}

func VxC05_Mapping2() { vxMapping(2) }
func VxC05_Mapping3() { vxMapping(3) }
func VxC05_Mapping4() { vxMapping(4) }
