package parser

import (
	"context"

	"github.com/ajitpratap0/GoSQLX/pkg/models"
	"github.com/ajitpratap0/GoSQLX/pkg/sql/token"
	vx "github.com/ajitpratap0/GoSQLX/zzvx"
)

// vxDirty puts a parser into an arbitrary state that satisfies the invariant
// I = (depth == 0 && ctx == nil) every entry point re-establishes (VxC08_Invariant),
// configured as its current holder configured it (strict / dialect).
func vxDirty(p *Parser) {
	p.tokens = []token.Token{VxStmtTable.Tok(), VxStmtTable.Tok(), VxEOF}
	p.currentPos = vx.Int()
	p.currentToken = VxStmtTable.Tok()
	n := vx.Choice(3)
	p.positions = make([]TokenPosition, n)
	for k := range p.positions {
		p.positions[k] = TokenPosition{OriginalIndex: vx.Int(), Start: models.Location{Line: 40 + vx.Small(5), Column: 40 + vx.Small(5)}}
	}
	p.depth = 0
	p.ctx = nil
}

var vxDialects = []string{"", "mysql", "postgresql"}

// vxDialect is a symbolic dialect (it stays symbolic until the parser looks at it).
func vxDialect() string { return vx.PickStr(vx.Small(len(vxDialects)), vxDialects) }

// C08 step 1: every entry point, on every outcome, re-establishes I and keeps the configuration.
func VxC08_Invariant()  { vxInvariant(3) }
func VxC08_Invariant2() { vxInvariant(2) }

func vxInvariant(maxK int) {
	p := NewParser()
	vxDirty(p)
	strict, dialect := vx.Bool(), vxDialect()
	p.strict, p.dialect = strict, dialect
	toks := append(VxStmtTable.Toks(maxK), VxEOF)
	VxNoteToks(toks)
	ep := vx.Choice(epCount)
	_ = vxRunEP(p, ep, toks)
	vx.Assertf("C08.inv_depth", p.depth == 0, "%s left depth=%d", epNames[ep], p.depth)
	vx.Assertf("C08.inv_ctx", p.ctx == nil, "%s left a context on the parser", epNames[ep])
	vx.Assertf("C08.inv_config", p.strict == strict && p.dialect == dialect, "%s changed the holder's configuration", epNames[ep])
}

// C08 step 2: from any state satisfying I, the outcome equals a fresh instance's.
func vxIndependence(prefix string, maxK int) {
	strict, dialect := vx.Bool(), vxDialect()
	used := NewParser()
	vxDirty(used)
	fresh := NewParser()
	used.strict, used.dialect = strict, dialect // the holder's configuration (as ApplyOptions sets it)
	fresh.strict, fresh.dialect = strict, dialect
	toks := append([]token.Token{}, VxFixed(prefix)...)
	toks = append(toks, VxStmtTable.Toks(maxK)...)
	toks = append(toks, VxEOF)
	VxNoteToks(toks)
	ep := vx.Choice(epCount)
	a := vxRunEP(used, ep, toks)
	b := vxRunEP(fresh, ep, toks)
	vx.Notef("ep=%s fresh ok=%v code=%s loc=%d:%d", epNames[ep], b.ok, b.code, b.line, b.col)
	vx.Assertf("C08.same_verdict", a.ok == b.ok && a.nerr == b.nerr, "%s: reused instance ok=%v (%d errors), fresh ok=%v (%d errors)", epNames[ep], a.ok, a.nerr, b.ok, b.nerr)
	vx.Assertf("C08.same_code", a.code == b.code, "%s: reused instance fails with %s, fresh with %s", epNames[ep], a.code, b.code)
	vx.Assertf("C08.same_location", a.line == b.line && a.col == b.col, "%s: reused instance reports %d:%d, fresh %d:%d", epNames[ep], a.line, a.col, b.line, b.col)
	vx.Assertf("C08.same_tree", vxSameStmts(a.stmts, b.stmts), "%s: reused instance returns a different tree", epNames[ep])
}

func VxC08_Indep_Start3()  { vxIndependence("", 3) }
func VxC08_Indep_Select2() { vxIndependence("SELECT", 2) }
func VxC08_Indep_Select3() { vxIndependence("SELECT", 3) }
func VxC08_Indep_Start4()  { vxIndependence("", 4) }

// C08 step 3: reset / release / pool hand-off gives back a parser equal to a new one.
func VxC08_Pool() {
	vx.PoolGC()
	p := GetParser()
	vxDirty(p)
	p.ApplyOptions(func(q *Parser) { q.strict = vx.Bool(); q.dialect = vxDialect() })
	// what the holder did with it: parsed, parsed and released, only configured it, or parsed nothing
	did := vx.Choice(4)
	switch did {
	case 0, 1:
		toks := []token.Token{VxStmtTable.Tok(), VxStmtTable.Tok(), VxEOF}
		_ = vxRunEP(p, vx.Choice(epCount), toks)
		if did == 1 {
			p.Release()
		}
	case 2:
		p.tokens, p.currentPos = nil, 0 // configured, never used
	case 3:
		_, _ = p.Parse(nil)
	}
	how := vx.Choice(3)
	var q *Parser
	switch how {
	case 0:
		PutParser(p)
		q = GetParser()
	case 1:
		p.Reset()
		q = p
	case 2:
		p.Release()
		q = p
	}
	vx.Notef("did=%d how=%d", did, how)
	fresh := &Parser{}
	if how == 2 {
		// Release is documented to clear per-parse state only; configuration is the holder's
		fresh.strict, fresh.dialect = q.strict, q.dialect
	}
	vx.Assertf("C08.pool_depth_ctx", q.depth == fresh.depth && q.ctx == nil && q.currentPos == 0 && q.tokens == nil, "instance not reset")
	if how != 2 {
		vx.Assertf("C08.pool_positions", len(q.positions) == 0, "position mapping of the previous parse survives (how=%d)", how)
	}
	vx.Assertf("C08.pool_config", q.strict == fresh.strict && q.dialect == fresh.dialect, "configuration of the previous holder survives (how=%d): strict=%v dialect=%q", how, q.strict, q.dialect)
}

// C08 invariant, strengthened to an arbitrary nesting context: whatever happens inside
// parseExpression — success, syntax error, the depth-limit rejection, cancellation — the
// depth counter returns to its entry value (so I = (depth==0) is re-established by every
// entry point no matter how deeply nested the input was).
func VxC08_DepthRestored() {
	p := NewParser()
	toks := append([]token.Token{}, VxExprTable.Toks(3)...)
	toks = append(toks, VxEOF)
	VxNoteToks(toks)
	p.tokens = toks
	p.currentPos = 0
	p.currentToken = toks[0]
	d := vx.Small(201)
	p.depth = d
	c := &vxCtx{k: vx.Small(8), kind: context.Canceled}
	if vx.Bool() {
		p.ctx = c
	}
	_, _ = p.parseExpression()
	vx.Assertf("C08.inv_depth_any", p.depth == d, "parseExpression entered with depth %d returned with depth %d", d, p.depth)
}
