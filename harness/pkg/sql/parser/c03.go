package parser

// C03: the parsed expression tree is the tree the documented precedence ladder
// prescribes (doc.go: OR < AND < NOT < comparison/IS/IN/BETWEEN/LIKE < || < + - <
// * / % < primary; binary levels left-associative; comparison non-associative;
// parentheses override). The reference parser below is written from that ladder
// and runs on the same symbolic tokens as the real parser.

import (
	"github.com/ajitpratap0/GoSQLX/pkg/models"
	"github.com/ajitpratap0/GoSQLX/pkg/sql/ast"
	"github.com/ajitpratap0/GoSQLX/pkg/sql/token"
	vx "github.com/ajitpratap0/GoSQLX/zzvx"
	"strings"
)

var vxC03Lexemes = []string{
	"a", "b", "c", "1", "2", "'x'",
	"=", "<>", "<", "<=", ">", ">=", "+", "-", "*", "/", "%", "||",
	"(", ")", ",", "NOT", "IS", "NULL", "IN", "BETWEEN", "AND", "OR", "LIKE", "TRUE",
}

var VxC03Table = VxMakeTable(vxLexRows(vxC03Lexemes))

type mnode struct {
	kind string // bin, not, in, between, isnull, like, ident, lit, null
	op   string // operator literal / identifier name / literal value
	not  bool
	kids []*mnode
}

type refParser struct {
	t   []token.Token
	pos int
	ok  bool
}

func (r *refParser) typ() models.TokenType {
	if r.pos < len(r.t) {
		return r.t[r.pos].Type
	}
	return models.TokenTypeEOF
}
func (r *refParser) typAt(k int) models.TokenType {
	if r.pos+k < len(r.t) {
		return r.t[r.pos+k].Type
	}
	return models.TokenTypeEOF
}
func (r *refParser) lit() string                { return r.t[r.pos].Literal }
func (r *refParser) is(t models.TokenType) bool { return r.typ() == t }

func (r *refParser) binLevel(next func() *mnode, ops ...models.TokenType) *mnode {
	left := next()
	for r.ok {
		hit := false
		for _, o := range ops {
			if r.is(o) {
				hit = true
			}
		}
		if !hit {
			break
		}
		op := r.lit()
		r.pos++
		right := next()
		left = &mnode{kind: "bin", op: op, kids: []*mnode{left, right}}
	}
	return left
}

func (r *refParser) expr() *mnode { return r.binLevel(r.and, models.TokenTypeOr) }
func (r *refParser) and() *mnode  { return r.binLevel(r.notx, models.TokenTypeAnd) }

func (r *refParser) notx() *mnode {
	if r.is(models.TokenTypeNot) {
		r.pos++
		x := r.notx()
		return &mnode{kind: "not", kids: []*mnode{x}}
	}
	return r.cmp()
}

func (r *refParser) cmp() *mnode {
	left := r.concat()
	if !r.ok {
		return left
	}
	neg := false
	if r.is(models.TokenTypeNot) && (r.typAt(1) == models.TokenTypeIn || r.typAt(1) == models.TokenTypeBetween || r.typAt(1) == models.TokenTypeLike) {
		neg = true
		r.pos++
	}
	switch {
	case r.is(models.TokenTypeEq) || r.is(models.TokenTypeNeq) || r.is(models.TokenTypeLt) || r.is(models.TokenTypeLtEq) || r.is(models.TokenTypeGt) || r.is(models.TokenTypeGtEq):
		op := r.lit()
		r.pos++
		right := r.concat()
		return &mnode{kind: "bin", op: op, kids: []*mnode{left, right}}
	case r.is(models.TokenTypeIs):
		r.pos++
		n := false
		if r.is(models.TokenTypeNot) {
			n = true
			r.pos++
		}
		if !r.is(models.TokenTypeNull) {
			r.ok = false
			return left
		}
		r.pos++
		return &mnode{kind: "isnull", not: n, kids: []*mnode{left}}
	case r.is(models.TokenTypeIn):
		r.pos++
		if !r.is(models.TokenTypeLParen) {
			r.ok = false
			return left
		}
		r.pos++
		n := &mnode{kind: "in", not: neg, kids: []*mnode{left}}
		for r.ok {
			n.kids = append(n.kids, r.expr())
			if r.is(models.TokenTypeComma) {
				r.pos++
				continue
			}
			break
		}
		if !r.is(models.TokenTypeRParen) {
			r.ok = false
			return left
		}
		r.pos++
		return n
	case r.is(models.TokenTypeBetween):
		r.pos++
		lo := r.concat()
		if !r.ok || !r.is(models.TokenTypeAnd) {
			r.ok = false
			return left
		}
		r.pos++
		hi := r.concat()
		return &mnode{kind: "between", not: neg, kids: []*mnode{left, lo, hi}}
	case r.is(models.TokenTypeLike):
		op := r.lit()
		r.pos++
		pat := r.prim()
		return &mnode{kind: "like", op: op, not: neg, kids: []*mnode{left, pat}}
	}
	return left
}

func (r *refParser) concat() *mnode { return r.binLevel(r.add, models.TokenTypeStringConcat) }
func (r *refParser) add() *mnode {
	return r.binLevel(r.mul, models.TokenTypePlus, models.TokenTypeMinus)
}
func (r *refParser) mul() *mnode {
	return r.binLevel(r.prim, models.TokenTypeMul, models.TokenTypeAsterisk, models.TokenTypeDiv, models.TokenTypeMod)
}

func (r *refParser) prim() *mnode {
	if !r.ok {
		return nil
	}
	switch {
	case r.is(models.TokenTypeIdentifier):
		n := &mnode{kind: "ident", op: r.lit()}
		r.pos++
		return n
	case r.is(models.TokenTypeNumber):
		n := &mnode{kind: "lit", op: r.lit()}
		r.pos++
		return n
	case r.is(models.TokenTypeString) || r.is(models.TokenTypeSingleQuotedString):
		n := &mnode{kind: "lit", op: r.lit()}
		r.pos++
		return n
	case r.is(models.TokenTypeTrue):
		n := &mnode{kind: "lit", op: r.lit()}
		r.pos++
		return n
	case r.is(models.TokenTypeNull):
		r.pos++
		return &mnode{kind: "null"}
	case r.is(models.TokenTypeLParen):
		r.pos++
		e := r.expr()
		if !r.ok || !r.is(models.TokenTypeRParen) {
			r.ok = false
			return nil
		}
		r.pos++
		return e
	}
	r.ok = false
	return nil
}

// vxSameTree asserts that the real expression equals the model tree, node by node.
func vxSameTree(e ast.Expression, m *mnode, path string) {
	if m == nil {
		return
	}
	switch m.kind {
	case "bin":
		b, ok := e.(*ast.BinaryExpression)
		vx.Assertf("C03.tree", ok && b != nil, "%s: want binary %q, got %T", path, m.op, e)
		if !ok || b == nil {
			return
		}
		vx.Assertf("C03.tree", b.Operator == m.op && !b.Not, "%s: want operator %q, got %q (not=%v)", path, m.op, b.Operator, b.Not)
		vxSameTree(b.Left, m.kids[0], path+"L")
		vxSameTree(b.Right, m.kids[1], path+"R")
	case "not":
		u, ok := e.(*ast.UnaryExpression)
		vx.Assertf("C03.tree", ok && u != nil && u.Operator == ast.Not, "%s: want NOT, got %T", path, e)
		if ok && u != nil {
			vxSameTree(u.Expr, m.kids[0], path+"N")
		}
	case "isnull":
		b, ok := e.(*ast.BinaryExpression)
		vx.Assertf("C03.tree", ok && b != nil && b.Operator == "IS NULL" && b.Not == m.not, "%s: want IS [NOT=%v] NULL, got %T", path, m.not, e)
		if ok && b != nil {
			vxSameTree(b.Left, m.kids[0], path+"L")
		}
	case "in":
		x, ok := e.(*ast.InExpression)
		vx.Assertf("C03.tree", ok && x != nil && x.Not == m.not && len(x.List) == len(m.kids)-1 && x.Subquery == nil, "%s: want IN list of %d (not=%v), got %T", path, len(m.kids)-1, m.not, e)
		if ok && x != nil && len(x.List) == len(m.kids)-1 {
			vxSameTree(x.Expr, m.kids[0], path+"E")
			for k := range x.List {
				vxSameTree(x.List[k], m.kids[k+1], path+"I")
			}
		}
	case "between":
		x, ok := e.(*ast.BetweenExpression)
		vx.Assertf("C03.tree", ok && x != nil && x.Not == m.not, "%s: want BETWEEN (not=%v), got %T", path, m.not, e)
		if ok && x != nil {
			vxSameTree(x.Expr, m.kids[0], path+"E")
			vxSameTree(x.Lower, m.kids[1], path+"l")
			vxSameTree(x.Upper, m.kids[2], path+"u")
		}
	case "like":
		b, ok := e.(*ast.BinaryExpression)
		vx.Assertf("C03.tree", ok && b != nil && b.Operator == m.op && b.Not == m.not, "%s: want LIKE (not=%v), got %T", path, m.not, e)
		if ok && b != nil {
			vxSameTree(b.Left, m.kids[0], path+"L")
			vxSameTree(b.Right, m.kids[1], path+"R")
		}
	case "ident":
		id, ok := e.(*ast.Identifier)
		vx.Assertf("C03.tree", ok && id != nil && id.Name == m.op && id.Table == "", "%s: want identifier %q, got %T", path, m.op, e)
	case "lit":
		l, ok := e.(*ast.LiteralValue)
		vx.Assertf("C03.tree", ok && l != nil, "%s: want literal %q, got %T", path, m.op, e)
		if ok && l != nil {
			s, isStr := l.Value.(string)
			vx.Assertf("C03.tree", isStr && s == m.op, "%s: want literal %q, got %v", path, m.op, l.Value)
		}
	case "null":
		l, ok := e.(*ast.LiteralValue)
		vx.Assertf("C03.tree", ok && l != nil && l.Value == nil && l.Type == "null", "%s: want NULL, got %T", path, e)
	}
}

func vxC03Expr(maxK int) {
	win := VxC03Table.Toks(maxK)
	toks := append([]token.Token{}, VxFixed("SELECT a FROM t WHERE")...)
	toks = append(toks, win...)
	toks = append(toks, VxEOF)
	VxNoteToks(win)
	tree, err := NewParser().Parse(toks)
	vx.Notef("accepted=%v", err == nil)
	r := &refParser{t: win, ok: true}
	m := r.expr()
	if !r.ok || r.pos != len(win) || m == nil {
		return // outside the model grammar: nothing is claimed
	}
	vx.Assertf("C03.accept", err == nil, "expression of the documented grammar rejected: %v", err)
	if err != nil {
		return
	}
	vx.Assert("C03.one_statement", len(tree.Statements) == 1)
	sel, ok := tree.Statements[0].(*ast.SelectStatement)
	vx.Assert("C03.select", ok && sel != nil)
	if ok && sel != nil {
		vxSameTree(sel.Where, m, "W")
	}
}

func VxC03_Expr3() { vxC03Expr(3) }
func VxC03_Expr4() { vxC03Expr(4) }
func VxC03_Expr5() { vxC03Expr(5) }
func VxC03_Expr6() { vxC03Expr(6) }

// ---------------------------------------------------------------------------
// operator-pair harness: a small table so that 5..7-token expressions stay cheap

var vxC03OpsLexemes = []string{"a", "b", "c", "=", "<", "+", "-", "*", "/", "%", "||", "AND", "OR", "NOT", "(", ")"}
var VxC03OpsTable = VxMakeTable(vxLexRows(vxC03OpsLexemes))

func vxC03Ops(maxK int) {
	win := VxC03OpsTable.Toks(maxK)
	toks := append([]token.Token{}, VxFixed("SELECT a FROM t WHERE")...)
	toks = append(toks, win...)
	toks = append(toks, VxEOF)
	VxNoteToks(win)
	tree, err := NewParser().Parse(toks)
	vx.Notef("accepted=%v", err == nil)
	r := &refParser{t: win, ok: true}
	m := r.expr()
	if !r.ok || r.pos != len(win) || m == nil {
		return
	}
	vx.Assertf("C03.accept", err == nil, "expression of the documented grammar rejected: %v", err)
	if err != nil {
		return
	}
	sel, ok := tree.Statements[0].(*ast.SelectStatement)
	vx.Assert("C03.select", ok && sel != nil)
	if ok && sel != nil {
		vxSameTree(sel.Where, m, "W")
	}
}

func VxC03_Ops5() { vxC03Ops(5) }
func VxC03_Ops6() { vxC03Ops(6) }
func VxC03_Ops7() { vxC03Ops(7) }

// ---------------------------------------------------------------------------
// clause template: every written clause appears with its written value, nothing unwritten appears

var vxNames = VxMakeTable(vxLexRows([]string{"a", "b", "c", "t", "u"}))
var vxNums = VxMakeTable(vxLexRows([]string{"1", "7", "10"}))
var vxSetOps = VxMakeTable(vxLexRows([]string{"UNION", "EXCEPT", "INTERSECT"}))

type vxSelSpec struct {
	distinct               bool
	col, tab               token.Token
	where, group, having   bool
	wcol, gcol, hcol, ocol token.Token
	order, desc            bool
	limit, offset          bool
	lim, off               token.Token
}

func vxGenSelect(full bool) (vxSelSpec, []token.Token) {
	var s vxSelSpec
	var t []token.Token
	fixed := func(sql string) { t = append(t, VxFixed(sql)...) }
	fixed("SELECT")
	s.distinct = vx.Bool()
	if s.distinct {
		fixed("DISTINCT")
	}
	s.col = vxNames.Tok()
	t = append(t, s.col)
	fixed("FROM")
	s.tab = vxNames.Tok()
	t = append(t, s.tab)
	if full {
		if s.where = vx.Bool(); s.where {
			fixed("WHERE")
			s.wcol = vxNames.Tok()
			t = append(t, s.wcol)
			fixed("= 1")
		}
		if s.group = vx.Bool(); s.group {
			fixed("GROUP BY")
			s.gcol = vxNames.Tok()
			t = append(t, s.gcol)
		}
		if s.having = vx.Bool(); s.having {
			fixed("HAVING")
			s.hcol = vxNames.Tok()
			t = append(t, s.hcol)
			fixed("> 1")
		}
		if s.order = vx.Bool(); s.order {
			fixed("ORDER BY")
			s.ocol = vxNames.Tok()
			t = append(t, s.ocol)
			if s.desc = vx.Bool(); s.desc {
				fixed("DESC")
			}
		}
		if s.limit = vx.Bool(); s.limit {
			fixed("LIMIT")
			s.lim = vxNums.Tok()
			t = append(t, s.lim)
		}
		if s.offset = vx.Bool(); s.offset {
			fixed("OFFSET")
			s.off = vxNums.Tok()
			t = append(t, s.off)
		}
	}
	return s, t
}

func vxIdentIs(e ast.Expression, name string) bool {
	id, ok := e.(*ast.Identifier)
	return ok && id != nil && id.Name == name && id.Table == ""
}

func vxAtoi(s string) int {
	n := 0
	for k := 0; k < len(s); k++ {
		n = n*10 + int(s[k]-'0')
	}
	return n
}

func vxCheckSelect(st ast.Statement, s vxSelSpec, where string) {
	sel, ok := st.(*ast.SelectStatement)
	vx.Assertf("C03.clause", ok && sel != nil, "%s: want SELECT, got %T", where, st)
	if !ok || sel == nil {
		return
	}
	vx.Assertf("C03.clause", sel.Distinct == s.distinct, "%s: DISTINCT written=%v parsed=%v", where, s.distinct, sel.Distinct)
	vx.Assertf("C03.clause", len(sel.Columns) == 1 && vxIdentIs(sel.Columns[0], s.col.Literal), "%s: column list", where)
	vx.Assertf("C03.clause", len(sel.From) == 1 && sel.From[0].Name == s.tab.Literal && sel.From[0].Alias == "" && sel.From[0].Subquery == nil, "%s: FROM", where)
	vx.Assertf("C03.clause", len(sel.Joins) == 0 && sel.With == nil && len(sel.Windows) == 0 && sel.Fetch == nil && sel.For == nil && len(sel.DistinctOnColumns) == 0, "%s: unwritten clause present", where)
	vx.Assertf("C03.clause", (sel.Where != nil) == s.where, "%s: WHERE written=%v parsed=%v", where, s.where, sel.Where != nil)
	if s.where && sel.Where != nil {
		b, ok := sel.Where.(*ast.BinaryExpression)
		vx.Assertf("C03.clause", ok && b != nil && b.Operator == "=" && vxIdentIs(b.Left, s.wcol.Literal), "%s: WHERE condition", where)
	}
	vx.Assertf("C03.clause", (len(sel.GroupBy) == 1) == s.group && len(sel.GroupBy) <= 1, "%s: GROUP BY written=%v parsed=%d", where, s.group, len(sel.GroupBy))
	if s.group && len(sel.GroupBy) == 1 {
		vx.Assertf("C03.clause", vxIdentIs(sel.GroupBy[0], s.gcol.Literal), "%s: GROUP BY column", where)
	}
	vx.Assertf("C03.clause", (sel.Having != nil) == s.having, "%s: HAVING written=%v parsed=%v", where, s.having, sel.Having != nil)
	if s.having && sel.Having != nil {
		b, ok := sel.Having.(*ast.BinaryExpression)
		vx.Assertf("C03.clause", ok && b != nil && b.Operator == ">" && vxIdentIs(b.Left, s.hcol.Literal), "%s: HAVING condition", where)
	}
	vx.Assertf("C03.clause", (len(sel.OrderBy) == 1) == s.order && len(sel.OrderBy) <= 1, "%s: ORDER BY written=%v parsed=%d", where, s.order, len(sel.OrderBy))
	if s.order && len(sel.OrderBy) == 1 {
		vx.Assertf("C03.clause", vxIdentIs(sel.OrderBy[0].Expression, s.ocol.Literal) && sel.OrderBy[0].Ascending == !s.desc && sel.OrderBy[0].NullsFirst == nil, "%s: ORDER BY key / direction (desc written=%v)", where, s.desc)
	}
	vx.Assertf("C03.clause", (sel.Limit != nil) == s.limit, "%s: LIMIT written=%v parsed=%v", where, s.limit, sel.Limit != nil)
	if s.limit && sel.Limit != nil {
		vx.Assertf("C03.clause", *sel.Limit == vxAtoi(vx.Conc(s.lim.Literal)), "%s: LIMIT value", where)
	}
	vx.Assertf("C03.clause", (sel.Offset != nil) == s.offset, "%s: OFFSET written=%v parsed=%v", where, s.offset, sel.Offset != nil)
	if s.offset && sel.Offset != nil {
		vx.Assertf("C03.clause", *sel.Offset == vxAtoi(vx.Conc(s.off.Literal)), "%s: OFFSET value", where)
	}
}

func VxC03_Clauses() {
	s, toks := vxGenSelect(true)
	toks = append(toks, VxEOF)
	VxNoteToks(toks)
	tree, err := NewParser().Parse(toks)
	vx.Assertf("C03.clause_accept", err == nil, "statement of the documented surface rejected: %v", err)
	if err != nil {
		return
	}
	vx.Assert("C03.clause_one", len(tree.Statements) == 1)
	vxCheckSelect(tree.Statements[0], s, "select")
}

// set operations: S1 op1 [ALL] S2 op2 [ALL] S3 — left-associative, flags as written
func VxC03_SetOps() {
	n := vx.Choice(3) // number of operators
	specs := make([]vxSelSpec, 0, 3)
	var toks []token.Token
	var ops []token.Token
	var alls []bool
	for k := 0; k <= n; k++ {
		if k > 0 {
			op := vxSetOps.Tok()
			ops = append(ops, op)
			toks = append(toks, op)
			all := vx.Bool()
			alls = append(alls, all)
			if all {
				toks = append(toks, VxFixed("ALL")...)
			}
		}
		s, t := vxGenSelect(false)
		specs = append(specs, s)
		toks = append(toks, t...)
	}
	toks = append(toks, VxEOF)
	VxNoteToks(toks)
	tree, err := NewParser().Parse(toks)
	vx.Assertf("C03.setop_accept", err == nil, "set operation chain rejected: %v", err)
	if err != nil {
		return
	}
	vx.Assert("C03.clause_one", len(tree.Statements) == 1)
	// ((S1 op1 S2) op2 S3): walk from the outermost operator inwards
	cur := tree.Statements[0]
	for k := n; k >= 1; k-- {
		so, ok := cur.(*ast.SetOperation)
		vx.Assertf("C03.setop", ok && so != nil, "operator %d: want set operation, got %T", k, cur)
		if !ok || so == nil {
			return
		}
		vx.Assertf("C03.setop", so.Operator == ops[k-1].Literal, "operator %d: written %q parsed %q", k, ops[k-1].Literal, so.Operator)
		vx.Assertf("C03.setop", so.All == alls[k-1], "operator %d: ALL written=%v parsed=%v", k, alls[k-1], so.All)
		vxCheckSelect(so.Right, specs[k], "right operand")
		cur = so.Left
	}
	vxCheckSelect(cur, specs[0], "leftmost operand")
}

// ---------------------------------------------------------------------------
// joins: every join of a chain appears with the kind, table, alias and condition written for it

var vxJoinKinds = []struct{ sql, typ string }{
	{"JOIN", "INNER"}, {"INNER JOIN", "INNER"}, {"LEFT JOIN", "LEFT"}, {"LEFT OUTER JOIN", "LEFT"}, {"RIGHT JOIN", "RIGHT"},
	{"RIGHT OUTER JOIN", "RIGHT"}, {"FULL JOIN", "FULL"}, {"FULL OUTER JOIN", "FULL"}, {"CROSS JOIN", "CROSS"},
}

var vxJoinToks = func() [][]token.Token {
	var out [][]token.Token
	for _, k := range vxJoinKinds {
		out = append(out, VxFixed(k.sql))
	}
	return out
}()

func vxJoins(maxN int) {
	n := vx.Choice(maxN) + 1
	toks := append([]token.Token{}, VxFixed("SELECT c FROM t")...)
	kinds := make([]int, n)
	tabs := make([]token.Token, n)
	aliased := make([]bool, n)
	using := make([]bool, n)
	for k := 0; k < n; k++ {
		kinds[k] = vx.Choice(len(vxJoinKinds))
		toks = append(toks, vxJoinToks[kinds[k]]...)
		tabs[k] = vxNames.Tok()
		toks = append(toks, tabs[k])
		if aliased[k] = vx.Bool(); aliased[k] {
			toks = append(toks, VxFixed("x")...)
		}
		if vxJoinKinds[kinds[k]].typ != "CROSS" {
			if using[k] = vx.Bool(); using[k] {
				toks = append(toks, VxFixed("USING ( a )")...)
			} else {
				toks = append(toks, VxFixed("ON a = b")...)
			}
		}
	}
	toks = append(toks, VxEOF)
	VxNoteToks(toks)
	tree, err := NewParser().Parse(toks)
	vx.Assertf("C03.join_accept", err == nil, "join chain of the documented surface rejected: %v", err)
	if err != nil {
		return
	}
	sel, ok := tree.Statements[0].(*ast.SelectStatement)
	vx.Assert("C03.select", ok && sel != nil)
	if !ok || sel == nil {
		return
	}
	vx.Assertf("C03.join_count", len(sel.Joins) == n, "%d joins written, %d in the tree", n, len(sel.Joins))
	if len(sel.Joins) != n {
		return
	}
	for k, j := range sel.Joins {
		vx.Assertf("C03.join_kind", j.Type == vxJoinKinds[kinds[k]].typ, "join %d written as %s, tree says %q", k, vxJoinKinds[kinds[k]].sql, j.Type)
		vx.Assertf("C03.join_table", j.Right.Name == tabs[k].Literal, "join %d: table written %q, tree has %q", k, tabs[k].Literal, j.Right.Name)
		wantAlias := ""
		if aliased[k] {
			wantAlias = "x"
		}
		vx.Assertf("C03.join_alias", j.Right.Alias == wantAlias, "join %d: alias written %q, tree has %q", k, wantAlias, j.Right.Alias)
		switch {
		case vxJoinKinds[kinds[k]].typ == "CROSS":
			vx.Assertf("C03.join_condition", j.Condition == nil, "join %d: CROSS JOIN with a condition", k)
		case using[k]:
			vx.Assertf("C03.join_condition", vxIdentIs(j.Condition, "a"), "join %d: USING ( a ) not in the tree", k)
		default:
			b, ok := j.Condition.(*ast.BinaryExpression)
			vx.Assertf("C03.join_condition", ok && b != nil && b.Operator == "=" && vxIdentIs(b.Left, "a") && vxIdentIs(b.Right, "b"), "join %d: ON a = b not in the tree", k)
		}
	}
	vx.Assertf("C03.join_from", len(sel.From) == 1 && sel.From[0].Name == "t", "FROM t not kept")
}

func VxC03_Joins2() { vxJoins(2) }
func VxC03_Joins3() { vxJoins(3) }

// ---------------------------------------------------------------------------
// DML: INSERT rows, UPDATE assignments and DELETE appear as written

func vxLitIs(e ast.Expression, text string) bool {
	l, ok := e.(*ast.LiteralValue)
	if !ok || l == nil {
		return false
	}
	s, ok := l.Value.(string)
	return ok && s == text
}

func VxC03_Insert() {
	toks := append([]token.Token{}, VxFixed("INSERT INTO t")...)
	ncols := vx.Choice(3) // 0: no column list
	for k := 0; k < ncols; k++ {
		if k == 0 {
			toks = append(toks, VxFixed("(")...)
		} else {
			toks = append(toks, VxFixed(",")...)
		}
		toks = append(toks, VxFixed([]string{"a", "b"}[k])...)
	}
	if ncols > 0 {
		toks = append(toks, VxFixed(")")...)
	}
	width := ncols
	if width == 0 {
		width = 1 + vx.Choice(2)
	}
	nrows := 1 + vx.Choice(3)
	toks = append(toks, VxFixed("VALUES")...)
	vals := make([][]token.Token, nrows)
	for r := 0; r < nrows; r++ {
		if r > 0 {
			toks = append(toks, VxFixed(",")...)
		}
		toks = append(toks, VxFixed("(")...)
		for c := 0; c < width; c++ {
			if c > 0 {
				toks = append(toks, VxFixed(",")...)
			}
			v := vxNums.Tok()
			vals[r] = append(vals[r], v)
			toks = append(toks, v)
		}
		toks = append(toks, VxFixed(")")...)
	}
	toks = append(toks, VxEOF)
	VxNoteToks(toks)
	tree, err := NewParser().Parse(toks)
	vx.Assertf("C03.insert_accept", err == nil, "INSERT of the documented surface rejected: %v", err)
	if err != nil {
		return
	}
	ins, ok := tree.Statements[0].(*ast.InsertStatement)
	vx.Assert("C03.insert", ok && ins != nil)
	if !ok || ins == nil {
		return
	}
	vx.Assertf("C03.insert_shape", ins.TableName == "t" && len(ins.Columns) == ncols && len(ins.Values) == nrows, "table %q, %d columns, %d rows in the tree; written t, %d, %d", ins.TableName, len(ins.Columns), len(ins.Values), ncols, nrows)
	if len(ins.Values) != nrows {
		return
	}
	for r := range ins.Values {
		vx.Assertf("C03.insert_row", len(ins.Values[r]) == width, "row %d has %d values, %d written", r, len(ins.Values[r]), width)
		if len(ins.Values[r]) != width {
			return
		}
		for c := range ins.Values[r] {
			vx.Assertf("C03.insert_value", vxLitIs(ins.Values[r][c], vals[r][c].Literal), "row %d value %d: written %q, tree has %s", r, c, vals[r][c].Literal, vx.Dump(ins.Values[r][c]))
		}
	}
}

func VxC03_UpdateDelete() {
	if vx.Bool() {
		toks := append([]token.Token{}, VxFixed("DELETE FROM")...)
		tab := vxNames.Tok()
		toks = append(toks, tab)
		where := vx.Bool()
		var wc token.Token
		if where {
			toks = append(toks, VxFixed("WHERE")...)
			wc = vxNames.Tok()
			toks = append(toks, wc)
			toks = append(toks, VxFixed("= 1")...)
		}
		toks = append(toks, VxEOF)
		VxNoteToks(toks)
		tree, err := NewParser().Parse(toks)
		vx.Assertf("C03.delete_accept", err == nil, "DELETE rejected: %v", err)
		if err != nil {
			return
		}
		del, ok := tree.Statements[0].(*ast.DeleteStatement)
		vx.Assert("C03.delete", ok && del != nil)
		if ok && del != nil {
			vx.Assertf("C03.delete_shape", del.TableName == tab.Literal && (del.Where != nil) == where && len(del.Using) == 0, "DELETE FROM %q WHERE=%v parsed as table %q WHERE=%v", tab.Literal, where, del.TableName, del.Where != nil)
			if where && del.Where != nil {
				b, ok := del.Where.(*ast.BinaryExpression)
				vx.Assertf("C03.delete_where", ok && b != nil && vxIdentIs(b.Left, wc.Literal), "WHERE column not kept")
			}
		}
		return
	}
	toks := append([]token.Token{}, VxFixed("UPDATE")...)
	tab := vxNames.Tok()
	toks = append(toks, tab)
	toks = append(toks, VxFixed("SET")...)
	n := 1 + vx.Choice(3)
	cols := make([]token.Token, n)
	vals := make([]token.Token, n)
	for k := 0; k < n; k++ {
		if k > 0 {
			toks = append(toks, VxFixed(",")...)
		}
		cols[k] = vxNames.Tok()
		vals[k] = vxNums.Tok()
		toks = append(toks, cols[k])
		toks = append(toks, VxFixed("=")...)
		toks = append(toks, vals[k])
	}
	where := vx.Bool()
	if where {
		toks = append(toks, VxFixed("WHERE a = 1")...)
	}
	toks = append(toks, VxEOF)
	VxNoteToks(toks)
	tree, err := NewParser().Parse(toks)
	vx.Assertf("C03.update_accept", err == nil, "UPDATE rejected: %v", err)
	if err != nil {
		return
	}
	up, ok := tree.Statements[0].(*ast.UpdateStatement)
	vx.Assert("C03.update", ok && up != nil)
	if !ok || up == nil {
		return
	}
	vx.Assertf("C03.update_shape", up.TableName == tab.Literal && len(up.Assignments) == n && (up.Where != nil) == where, "UPDATE %q with %d assignments WHERE=%v parsed as %q, %d, %v", tab.Literal, n, where, up.TableName, len(up.Assignments), up.Where != nil)
	if len(up.Assignments) != n {
		return
	}
	for k, a := range up.Assignments {
		vx.Assertf("C03.update_assignment", vxIdentIs(a.Column, cols[k].Literal) && vxLitIs(a.Value, vals[k].Literal), "assignment %d: written %q = %q, tree has %s = %s", k, cols[k].Literal, vals[k].Literal, vx.Dump(a.Column), vx.Dump(a.Value))
	}
}

// ---------------------------------------------------------------------------
// shapes: longer expressions than the token windows reach, with the structure fixed and the
// operators symbolic: the tree must be the reference parser's tree.

var vxShapeOps = VxMakeTable(vxLexRows([]string{"=", "<", "+", "-", "*", "/", "%", "||", "AND", "OR"}))

// '?' is a symbolic binary operator; everything else is literal text
var vxShapes = []string{
	"NOT ( a ) ? b",
	"NOT ( a ? b ) ? c",
	"NOT a ? b ? c",
	"( a ) ? b ? ( c )",
	"( a ? b ) ? c ? d",
	"a ? ( b ? c ) ? d",
	"a ? b ? c ? d",
	"- a ? b ? - c",
	"a ? NOT b ? c",
	"NOT NOT a ? b",
	"( ( a ? b ) ) ? ( c ? d )",
	"a ? b AND NOT ( c ? d )",
}

func VxC03_Shapes() {
	sh := vxShapes[vx.Choice(len(vxShapes))]
	var win []token.Token
	for _, w := range VxFixed(strings.ReplaceAll(sh, "?", "=")) {
		win = append(win, w)
	}
	// replace the placeholders (tokenised as '=') of the template by symbolic operators, in order
	plain := VxFixed(strings.ReplaceAll(sh, "?", ""))
	_ = plain
	words := strings.Fields(sh)
	if len(words) != len(win) {
		return
	}
	for k, w := range words {
		if w == "?" {
			win[k] = vxShapeOps.Tok()
		}
	}
	toks := append([]token.Token{}, VxFixed("SELECT a FROM t WHERE")...)
	toks = append(toks, win...)
	toks = append(toks, VxEOF)
	VxNoteToks(win)
	tree, err := NewParser().Parse(toks)
	r := &refParser{t: win, ok: true}
	m := r.expr()
	if !r.ok || r.pos != len(win) || m == nil {
		return
	}
	vx.Assertf("C03.accept", err == nil, "expression of the documented grammar rejected: %v", err)
	if err != nil {
		return
	}
	sel, ok := tree.Statements[0].(*ast.SelectStatement)
	vx.Assert("C03.select", ok && sel != nil)
	if ok && sel != nil {
		vxSameTree(sel.Where, m, "W")
	}
}
