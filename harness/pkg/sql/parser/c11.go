package parser

import (
	"context"
	"errors"

	"github.com/ajitpratap0/GoSQLX/pkg/sql/token"
	vx "github.com/ajitpratap0/GoSQLX/zzvx"
)

// C11: the context turns done at poll k (symbolic), with either error kind.
func vxCancel(sql string, tab *VxTable, maxK int) {
	toks := append([]token.Token{}, VxFixed(sql)...)
	if tab != nil {
		toks = append(toks, tab.Toks(maxK)...)
	}
	toks = append(toks, VxEOF)
	VxNoteToks(toks)
	kind := context.Canceled
	if vx.Bool() {
		kind = context.DeadlineExceeded
	}
	c := &vxCtx{k: vx.Small(64), kind: kind}
	vx.Notef("k=%d kind=%v", c.k, kind)
	p := NewParser()
	d0 := vx.Small(50)
	p.depth = d0 // arbitrary nesting context: the accounting must return to it
	tree, err := p.ParseContext(c, toks)
	if c.n > c.k {
		// the library observed the context as done
		vx.Assertf("C11.no_tree", tree == nil, "tree returned although the context was done at poll %d", c.k+1)
		vx.Assertf("C11.is_ctx_err", err != nil && errors.Is(err, kind), "error does not match the context's error: %v", err)
		vx.Assertf("C11.prompt", c.n-c.k <= 3, "%d further polls after the context turned done", c.n-c.k-1)
	} else {
		// never observed: exactly the context-free result
		q := NewParser()
		q.depth = d0
		t2, e2 := q.Parse(toks)
		vx.Assertf("C11.same_verdict", (err == nil) == (e2 == nil), "uncancelled ParseContext differs from Parse")
		if err == nil && e2 == nil {
			vx.Assertf("C11.same_tree", vxSameStmts(tree.Statements, t2.Statements), "uncancelled ParseContext returns a different tree")
		}
	}
	// no residue: fit for reuse
	vx.Assertf("C11.residue_ctx", p.ctx == nil, "context left on the parser")
	vx.Assertf("C11.residue_depth", p.depth == d0, "depth %d after return, %d before", p.depth, d0)
}

const vxNested = "WITH c AS ( SELECT a FROM t WHERE a IN ( 1 , 2 ) ) SELECT CASE WHEN a > 1 THEN f ( a , g ( b ) ) ELSE 2 END FROM c JOIN u ON c . a = u . a WHERE a BETWEEN 1 AND 2 UNION SELECT b FROM v WHERE EXISTS ( SELECT 1 FROM w )"

func VxC11_Nested() { vxCancel(vxNested, nil, 0) }
func VxC11_Returning() {
	vxCancel("INSERT INTO t ( a ) VALUES ( 1 ) RETURNING f ( a , b ) , a + 1", nil, 0)
}
func VxC11_Where2()  { vxCancel("SELECT a FROM t WHERE", VxExprTable, 2) }
func VxC11_Where3()  { vxCancel("SELECT a FROM t WHERE", VxExprTable, 3) }
func VxC11_Select2() { vxCancel("SELECT", VxExprTable, 2) }
func VxC11_Select3() { vxCancel("SELECT", VxExprTable, 3) }
