package parser

import (
	"github.com/ajitpratap0/GoSQLX/pkg/sql/token"
	vx "github.com/ajitpratap0/GoSQLX/zzvx"
)

var epNames = []string{"Parse", "ParseContext", "ParseWithPositions", "ParseWithRecovery"}

// C07: all low-level entry points agree on every token stream with content.
func vxAgree(prefix string, tab *VxTable, maxK int, strictSym bool) {
	toks := append([]token.Token{}, VxFixed(prefix)...)
	toks = append(toks, tab.Toks(maxK)...)
	toks = append(toks, VxEOF)
	vx.Assume(vxHasContent(toks))
	VxNoteToks(toks)
	var opts []ParserOption
	if strictSym && vx.Bool() {
		opts = append(opts, WithStrictMode())
		vx.Notef("strict")
	}
	base := vxRunEP(NewParser(opts...), epParse, toks)
	vx.Notef("Parse ok=%v code=%s", base.ok, base.code)
	for ep := 1; ep < epCount; ep++ {
		if strictSym && ep == epRecovery {
			continue // recovery mode collects errors; strict-mode agreement is claimed for the three strict loops
		}
		o := vxRunEP(NewParser(opts...), ep, toks)
		vx.Assertf("C07.same_verdict", o.ok == base.ok, "Parse ok=%v but %s ok=%v", base.ok, epNames[ep], o.ok)
		if o.ok != base.ok {
			continue
		}
		if base.ok {
			vx.Assertf("C07.same_tree", vxSameStmts(base.stmts, o.stmts), "Parse and %s return different trees", epNames[ep])
		} else if ep != epRecovery || o.nerr == 1 {
			vx.Assertf("C07.same_code", o.code == base.code, "Parse fails with %s but %s with %s", base.code, epNames[ep], o.code)
		}
	}
}

func VxC07_Start3()  { vxAgree("", VxStmtTable, 3, false) }
func VxC07_Select3() { vxAgree("SELECT", VxStmtTable, 3, false) }
func VxC07_Where3()  { vxAgree("SELECT a FROM t WHERE", VxStmtTable, 3, false) }
func VxC07_Semi3()   { vxAgree("; SELECT a FROM t ;", VxStmtTable, 3, false) }
func VxC07_Strict2() { vxAgree("", VxStmtTable, 2, true) }
func VxC07_Start4()  { vxAgree("", VxStmtTable, 4, false) }
func VxC07_Select4() { vxAgree("SELECT", VxStmtTable, 4, false) }
func VxC07_Where4()  { vxAgree("SELECT a FROM t WHERE", VxStmtTable, 4, false) }
func VxC07_Semi4()   { vxAgree("; SELECT a FROM t ;", VxStmtTable, 4, false) }
