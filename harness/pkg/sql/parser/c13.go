package parser

// C13 (reproducibility): the same input gives the same error - code, message, location - before
// and after an unrelated parse through another entry point, on the same and on another instance
// (state shared between calls or between instances would show here).

import (
	"errors"

	goerrors "github.com/ajitpratap0/GoSQLX/pkg/errors"
	"github.com/ajitpratap0/GoSQLX/pkg/models"
	"github.com/ajitpratap0/GoSQLX/pkg/sql/token"
	vx "github.com/ajitpratap0/GoSQLX/zzvx"
)

func vxErrKey(err error) (string, string, models.Location, bool) {
	var se *goerrors.Error
	if err == nil || !errors.As(err, &se) {
		return "", "", models.Location{}, false
	}
	return string(se.Code), se.Message, se.Location, true
}

func VxC13_Repeat() {
	x := append(VxStmtTable.Toks(2), VxEOF)
	y := append(VxStmtTable.Toks(2), VxEOF)
	VxNoteToks(x)
	_, e1 := NewParser().Parse(x)
	c0, m0, l0, ok0 := vxErrKey(e1) // what the caller saw when the error was handed out
	// something else in between: another input through the entry point that tracks positions
	pos := make([]TokenPosition, len(y))
	for j := range y {
		pos[j] = TokenPosition{OriginalIndex: j, Start: models.Location{Line: 6, Column: 1 + j}, End: models.Location{Line: 6, Column: 2 + j}}
	}
	_, _ = NewParser().ParseWithPositions(&ConversionResult{Tokens: append([]token.Token{}, y...), PositionMapping: pos})
	_, e2 := NewParser().Parse(x)
	_, e3 := NewParser().ParseContext(vxNeverCtx(), x)
	c3, m3, l3, ok3 := vxErrKey(e3)
	c1, m1, l1, ok1 := vxErrKey(e1)
	c2, m2, l2, ok2 := vxErrKey(e2)
	vx.Assertf("C13.repeat_error_not_modified", ok0 == ok1 && c0 == c1 && m0 == m1 && l0 == l1, "an error already returned changed afterwards: %s %q at %d:%d became %s %q at %d:%d", c0, m0, l0.Line, l0.Column, c1, m1, l1.Line, l1.Column)
	vx.Assertf("C13.repeat_same_verdict", (e1 == nil) == (e2 == nil) && ok1 == ok2, "the same input is accepted once and rejected once")
	if ok2 && ok3 {
		vx.Assertf("C13.repeat_same_error", c2 == c3 && m2 == m3 && l2 == l3, "Parse and ParseContext disagree on the same input after the same history: %s at %d:%d vs %s at %d:%d", c2, l2.Line, l2.Column, c3, l3.Line, l3.Column)
	}
	if ok1 && ok2 {
		vx.Assertf("C13.repeat_same_error", c1 == c2 && m1 == m2 && l1 == l2, "same input, two answers: %s %q at %d:%d, then %s %q at %d:%d", c1, m1, l1.Line, l1.Column, c2, m2, l2.Line, l2.Column)
	}
}
