package keywords

import (
	"github.com/ajitpratap0/GoSQLX/zzvx/lintcheck"
)

func vxL007(n int, style CaseStyle) {
	in := lintcheck.Input(n, "orR '\"")
	lintcheck.Rule("C17.L007", NewKeywordCaseRule(style), in)
}

func VxC17_L007_Upper4() { vxL007(4, CaseUpper) }
func VxC17_L007_Upper5() { vxL007(5, CaseUpper) }
func VxC17_L007_Lower5() { vxL007(5, CaseLower) }
func VxC17_L007_Upper6() { vxL007(6, CaseUpper) }
