package style

import (
	"github.com/ajitpratap0/GoSQLX/zzvx/lintcheck"
)

func vxL008(n int, st CommaStyle) {
	in := lintcheck.Input(n, "a,\n '-")
	lintcheck.Rule("C17.L008", NewCommaPlacementRule(st), in)
}

func VxC17_L008_Trailing5() { vxL008(5, CommaTrailing) }
func VxC17_L008_Leading5()  { vxL008(5, CommaLeading) }
