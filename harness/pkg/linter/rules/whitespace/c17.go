package whitespace

import (
	"github.com/ajitpratap0/GoSQLX/zzvx/lintcheck"
	vx "github.com/ajitpratap0/GoSQLX/zzvx"
)

func vxL001(n int) {
	in := lintcheck.Input(n, " \t\n\ra'-")
	_, viol := lintcheck.Rule("C17.L001", NewTrailingWhitespaceRule(), in)
	// the rule reports a line exactly when it ends in a blank
	lines := vxSplit(in)
	for k, l := range lines {
		want := len(l) > 0 && (l[len(l)-1] == ' ' || l[len(l)-1] == '\t')
		got := false
		for _, v := range viol {
			got = got || v.Location.Line == k+1
		}
		vx.Assertf("C17.L001.flags_exactly", got == want, "line %d %q: trailing blank=%v reported=%v", k+1, l, want, got)
	}
}

func vxSplit(s string) []string {
	var out []string
	start := 0
	for k := 0; k < len(s); k++ {
		if s[k] == '\n' {
			out = append(out, s[start:k])
			start = k + 1
		}
	}
	return append(out, s[start:])
}

func vxBlank(l string) bool {
	for k := 0; k < len(l); k++ {
		if l[k] != ' ' && l[k] != '\t' && l[k] != '\r' {
			return false
		}
	}
	return true
}

func vxL003(n int) {
	in := lintcheck.Input(n, "\n\r a'")
	_, viol := lintcheck.Rule("C17.L003", NewConsecutiveBlankLinesRule(1), in)
	// the rule reports iff somewhere more than one blank line follow each other
	lines := vxSplit(in)
	run, worst := 0, 0
	for _, l := range lines {
		if vxBlank(l) {
			run++
			if run > worst {
				worst = run
			}
		} else {
			run = 0
		}
	}
	vx.Assertf("C17.L003.flags_exactly", (len(viol) > 0) == (worst > 1), "longest run of blank lines is %d but %d violations reported", worst, len(viol))
}

func vxL002(n int) {
	in := lintcheck.Input(n, " \t\na'")
	lintcheck.Rule("C17.L002", NewMixedIndentationRule(), in)
}

func vxL005(n int) {
	in := lintcheck.Input(n, " a'\n-,")
	lintcheck.Rule("C17.L005", NewRedundantWhitespaceRule(), in)
}

// word slots: literals and quoted identifiers that contain a comment marker, real comments, runs of
// blanks (byte-level bounds never reach a literal, a comment and a run of blanks on one line)
var vxL005Slots = []string{"a", " ", "  ", "'--'", "\"--\"", "--", "\n", "'"}

func vxL005Words(n int) {
	k := vx.Choice(n + 1)
	in := ""
	for j := 0; j < k; j++ {
		in += vxL005Slots[vx.Choice(len(vxL005Slots))]
	}
	lintcheck.Rule("C17.L005", NewRedundantWhitespaceRule(), in)
}

func VxC17_L005_Words4() { vxL005Words(4) }
func VxC17_L005_Words5() { vxL005Words(5) }
func VxC17_L001_4() { vxL001(4) }
func VxC17_L001_5() { vxL001(5) }
func VxC17_L002_4() { vxL002(4) }
func VxC17_L002_6() { vxL002(6) }
func VxC17_L003_5() { vxL003(5) }
func VxC17_L003_6() { vxL003(6) }
func VxC17_L003_7() { vxL003(7) }
func VxC17_L005_4() { vxL005(4) }
func VxC17_L005_5() { vxL005(5) }
