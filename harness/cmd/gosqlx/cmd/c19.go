package cmd

// C19 (reduced to what a solver reaches, see DESIGN.md): the units behind `gosqlx format`
// and `gosqlx validate` are executed on an in-memory file system whose operations are stubs
// with the documented contract of the os calls they replace (the check rewrites the os.* /
// helper call sites of the CURRENT sources into these stubs on every run). File contents,
// flags and the fault - which operation fails or at which the process dies, and after how many
// bytes of a write - are symbolic.

import (
	"bytes"
	"encoding/json"
	"errors"
	"io/fs"
	"os"
	"path/filepath"
	"time"

	"github.com/spf13/cobra"

	"github.com/ajitpratap0/GoSQLX/cmd/gosqlx/internal/output"
	"github.com/ajitpratap0/GoSQLX/pkg/gosqlx"
	"github.com/ajitpratap0/GoSQLX/pkg/linter"
	vx "github.com/ajitpratap0/GoSQLX/zzvx"
)

// ---- the file system model ---------------------------------------------------------------------

type vxFSState struct {
	names   []string          // creation order
	files   map[string][]byte // complete contents
	modes   map[string]os.FileMode
	ops     int  // operations performed so far
	faultOp int  // the operation that fails (-1: none)
	crash   bool // the fault kills the process instead of returning an error
	faultK  int  // bytes that reach the disk when the faulty operation is a write
	tmpSeq  int
	wrote   bool // some file operation modified the disk
}

var vxfs *vxFSState

type vxCrashed struct{}

var errVxIO = errors.New("vx: injected I/O error")

func vxNewFS() *vxFSState {
	return &vxFSState{files: map[string][]byte{}, modes: map[string]os.FileMode{}, faultOp: -1}
}

func (s *vxFSState) put(name string, data []byte, mode os.FileMode) {
	if _, ok := s.files[name]; !ok {
		s.names = append(s.names, name)
	}
	s.files[name] = data
	s.modes[name] = mode
}

// step counts an operation and says whether it is the faulty one.
func (s *vxFSState) step() bool {
	s.ops++
	return s.ops-1 == s.faultOp
}

func (s *vxFSState) die() {
	if s.crash {
		panic(vxCrashed{})
	}
}

// write stores the first n bytes (all of them without a fault) of data at name.
func (s *vxFSState) writeBytes(name string, old, data []byte) (int, error) {
	s.wrote = true
	if s.step() {
		k := s.faultK
		if k > len(data) {
			k = len(data)
		}
		s.files[name] = append(append([]byte{}, old...), data[:k]...)
		s.die()
		return k, errVxIO
	}
	s.files[name] = append(append([]byte{}, old...), data...)
	return len(data), nil
}

// os.ReadFile
func vxReadFile(name string) ([]byte, error) {
	d, ok := vxfs.files[name]
	if !ok {
		return nil, &fs.PathError{Op: "open", Path: name, Err: fs.ErrNotExist}
	}
	return append([]byte{}, d...), nil
}

// os.WriteFile: open with O_TRUNC (the file is empty from here on), then write
func vxWriteFile(name string, data []byte, perm os.FileMode) error {
	s := vxfs
	if _, ok := s.files[name]; !ok {
		s.put(name, nil, perm)
	}
	s.wrote = true
	s.files[name] = nil
	if s.step() { // the truncating open succeeded, nothing written yet
		s.die()
		return errVxIO
	}
	_, err := s.writeBytes(name, nil, data)
	return err
}

type vxInfo struct {
	name string
	size int64
	mode os.FileMode
}

func (i vxInfo) Name() string       { return i.name }
func (i vxInfo) Size() int64        { return i.size }
func (i vxInfo) Mode() os.FileMode  { return i.mode }
func (i vxInfo) ModTime() time.Time { return time.Time{} }
func (i vxInfo) IsDir() bool        { return false }
func (i vxInfo) Sys() any           { return nil }

// os.Stat
func vxStat(name string) (os.FileInfo, error) {
	d, ok := vxfs.files[name]
	if !ok {
		return nil, &fs.PathError{Op: "stat", Path: name, Err: fs.ErrNotExist}
	}
	return vxInfo{name: filepath.Base(name), size: int64(len(d)), mode: vxfs.modes[name]}, nil
}

type vxFile struct {
	name   string
	closed bool
}

// os.CreateTemp
func vxCreateTemp(dir, pattern string) (*vxFile, error) {
	s := vxfs
	if s.step() {
		s.die()
		return nil, errVxIO
	}
	s.tmpSeq++
	name := filepath.Join(dir, pattern+"."+string(rune('0'+s.tmpSeq)))
	s.put(name, nil, 0600)
	return &vxFile{name: name}, nil
}

func (f *vxFile) Name() string { return f.name }
func (f *vxFile) Write(b []byte) (int, error) {
	return vxfs.writeBytes(f.name, vxfs.files[f.name], b)
}
func (f *vxFile) Chmod(m os.FileMode) error {
	if vxfs.step() {
		vxfs.die()
		return errVxIO
	}
	vxfs.modes[f.name] = m
	return nil
}
func (f *vxFile) Sync() error {
	if vxfs.step() {
		vxfs.die()
		return errVxIO
	}
	return nil
}
func (f *vxFile) Close() error {
	f.closed = true
	if vxfs.step() {
		vxfs.die()
		return errVxIO
	}
	return nil
}

// os.Rename: atomic
func vxRename(from, to string) error {
	s := vxfs
	if s.step() {
		s.die()
		return errVxIO
	}
	d, ok := s.files[from]
	if !ok {
		return &fs.PathError{Op: "rename", Path: from, Err: fs.ErrNotExist}
	}
	s.wrote = true
	s.put(to, d, s.modes[from])
	delete(s.files, from)
	return nil
}

// os.Remove
func vxRemove(name string) error {
	s := vxfs
	if s.step() {
		s.die()
		return errVxIO
	}
	if _, ok := s.files[name]; !ok {
		return &fs.PathError{Op: "remove", Path: name, Err: fs.ErrNotExist}
	}
	delete(s.files, name)
	return nil
}

// expandFileArgs / ValidateFileAccess / DetectAndReadInput: the arguments are plain file names
func vxExpand(args []string) ([]string, error) { return args, nil }
func vxAccess(name string) error {
	if _, ok := vxfs.files[name]; !ok {
		return &fs.PathError{Op: "stat", Path: name, Err: fs.ErrNotExist}
	}
	return nil
}
func vxDetect(name string) (*InputResult, error) {
	d, ok := vxfs.files[name]
	if !ok {
		return nil, errors.New("invalid file path: " + name)
	}
	if len(d) == 0 {
		return nil, errors.New("file is empty: " + name)
	}
	return &InputResult{Type: InputTypeFile, Content: append([]byte{}, d...), Source: name}, nil
}

// ---- scenarios ---------------------------------------------------------------------------------

var vxC19Texts = []string{
	"select a from t",         // valid, not formatted
	"SELECT a, b FROM t;\n",   // valid
	"select a from t; select", // valid statement followed by an invalid one
	"select from where",       // rejected by the parser
	"select 'abc",             // rejected by the tokenizer
	"-- nothing here\n",       // no statement
	"  \n",                    // blank
	"",                        // zero bytes
}

var vxNFiles = 2

var vxC19Names = []string{"d/a.sql", "d/b.sql", "d/c.sql"}

func vxC19Setup() (orig [][]byte) {
	vxfs = vxNewFS()
	for k := 0; k < vxNFiles; k++ {
		t := vxC19Texts[vx.Choice(len(vxC19Texts))]
		vxfs.put(vxC19Names[k], []byte(t), 0644)
		orig = append(orig, []byte(t))
		vx.Notef("file %s = %q", vxC19Names[k], t)
	}
	return orig
}

// run calls fn and reports whether the process "died" at the injected crash point.
func vxRunCrashable(fn func()) (crashed bool) {
	defer func() {
		if r := recover(); r != nil {
			if _, ok := r.(vxCrashed); ok {
				crashed = true
				return
			}
			panic(r)
		}
	}()
	fn()
	return false
}

// the exit status of `gosqlx format` as formatRun derives it from Formatter.Format's result
func vxFormatExit(res *FormatterResult, err error) int {
	if err != nil {
		return 1
	}
	if len(res.NeedsFormatting) > 0 {
		return 1
	}
	if res.FailedFiles > 0 {
		return 1
	}
	return 0
}

func vxLibraryAccepts(text []byte) bool {
	return gosqlx.Validate(string(text)) == nil
}

// VxC19_Format: no faults; flags symbolic. Verdicts, check-only modes and mutual consistency.
func VxC19_Format() {
	orig := vxC19Setup()
	opts := CLIFormatterOptions{IndentSize: 2, Uppercase: vx.Bool(), Compact: vx.Bool()}
	mode := vx.Choice(3) // 0: print, 1: --check, 2: -i
	opts.Check = mode == 1
	opts.InPlace = mode == 2
	vx.Notef("mode=%d upper=%v compact=%v", mode, opts.Uppercase, opts.Compact)

	// what the formatter itself says about each text, without any file involved
	ref := NewFormatter(&bytes.Buffer{}, &bytes.Buffer{}, opts)
	var want [][]byte
	var fmtOK []bool
	for k := range orig {
		s, err := ref.formatSQL(string(orig[k]))
		fmtOK = append(fmtOK, err == nil)
		want = append(want, []byte(s))
	}

	var out, errb bytes.Buffer
	res, err := NewFormatter(&out, &errb, opts).Format(vxC19Names[:vxNFiles])
	exit := vxFormatExit(res, err)
	if mode == 1 {
		vx.Notef("exit=%d", exit) // the --check summary prints a duration
	} else {
		vx.Notef("exit=%d stdout=%q", exit, out.String())
	}

	allAccepted := true
	anyChange := false
	emptySeen := false
	for k := range orig {
		name := vxC19Names[k]
		now := vxfs.files[name]
		lib := vxLibraryAccepts(orig[k])
		if len(orig[k]) == 0 {
			emptySeen = true // judged separately below (C19.empty_file_verdict)
		} else if !lib {
			allAccepted = false
		}
		if lib {
			vx.Assertf("C19.format_agrees_with_library", fmtOK[k], "the library accepts %q but format rejects it", orig[k])
		}
		if len(orig[k]) > 0 {
			vx.Assertf("C19.format_rejects_with_library", lib || !fmtOK[k], "the library rejects %q but format processes it", orig[k])
		}
		if fmtOK[k] && !bytes.Equal(want[k], orig[k]) && len(orig[k]) > 0 {
			anyChange = true
		}
		switch mode {
		case 0, 1:
			vx.Assertf("C19.check_only_never_writes", bytes.Equal(now, orig[k]), "mode %d modified %s: %q -> %q", mode, name, orig[k], now)
		case 2:
			if !fmtOK[k] || len(orig[k]) == 0 {
				vx.Assertf("C19.replaced_only_on_success", bytes.Equal(now, orig[k]), "%s was not processed successfully but changed: %q -> %q", name, orig[k], now)
			} else {
				vx.Assertf("C19.inplace_writes_formatted", bytes.Equal(now, want[k]), "-i left %q in %s, format prints %q", now, name, want[k])
			}
		}
	}
	vx.Assertf("C19.no_stray_files", len(vxfs.files) == vxNFiles, "files on disk afterwards: %d", len(vxfs.files))
	if emptySeen && allAccepted && !anyChange {
		// zero-byte files: the library rejects the empty text, the CLI accepts the file
		vx.Assertf("C19.empty_file_verdict", exit != 0, "format exits 0 on a zero-byte file, the library rejects empty input")
	}
	if mode != 1 {
		vx.Assertf("C19.exit_matches_library", (exit == 0) == allAccepted, "exit status %d, library accepts every input: %v", exit, allAccepted)
	} else {
		vx.Assertf("C19.check_exit", (exit == 0) == (allAccepted && !anyChange), "--check exits %d; all accepted=%v, some file would change=%v", exit, allAccepted, anyChange)
		// --check and -i agree: a file is reported iff -i would rewrite it
		for k := range orig {
			listed := false
			if res != nil {
				for _, n := range res.NeedsFormatting {
					if n == vxC19Names[k] {
						listed = true
					}
				}
			}
			would := fmtOK[k] && len(orig[k]) > 0 && !bytes.Equal(want[k], orig[k])
			vx.Assertf("C19.check_lists_exactly", listed == would, "--check lists %s: %v, -i would rewrite it: %v", vxC19Names[k], listed, would)
		}
	}
	if mode == 0 {
		// the text printed is the text -i writes (plus the final newline print mode adds)
		exp := ""
		for k := range orig {
			if fmtOK[k] || len(orig[k]) == 0 {
				s := string(want[k])
				if len(orig[k]) == 0 {
					s = ""
				}
				if len(s) == 0 || s[len(s)-1] != '\n' {
					s += "\n"
				}
				exp += s
			}
		}
		vx.Assertf("C19.print_equals_inplace", out.String() == exp, "format prints %q, -i would write %q", out.String(), exp)
	}
}

// VxC19_InPlaceFault: format -i with one injected fault (an operation returns an I/O error, or
// the process dies there; a write gets k bytes to disk first).
func VxC19_InPlaceFault() {
	orig := vxC19Setup()
	opts := CLIFormatterOptions{IndentSize: 2, Uppercase: true, InPlace: true}
	ref := NewFormatter(&bytes.Buffer{}, &bytes.Buffer{}, opts)
	var want [][]byte
	var fmtOK []bool
	maxLen := 0
	for k := range orig {
		s, err := ref.formatSQL(string(orig[k]))
		fmtOK = append(fmtOK, err == nil)
		want = append(want, []byte(s))
		if len(s) > maxLen {
			maxLen = len(s)
		}
	}
	vxfs.faultOp = vx.Choice(16)
	vxfs.crash = vx.Bool()
	vxfs.faultK = vx.Choice(maxLen + 1)
	vx.Notef("faultOp=%d crash=%v k=%d", vxfs.faultOp, vxfs.crash, vxfs.faultK)

	var out, errb bytes.Buffer
	var res *FormatterResult
	var err error
	crashed := vxRunCrashable(func() { res, err = NewFormatter(&out, &errb, opts).Format(vxC19Names[:vxNFiles]) })
	vx.Notef("crashed=%v ops=%d", crashed, vxfs.ops)

	for k := range orig {
		name := vxC19Names[k]
		now, exists := vxfs.files[name]
		isOld := exists && bytes.Equal(now, orig[k])
		isNew := exists && fmtOK[k] && len(orig[k]) > 0 && bytes.Equal(now, want[k])
		vx.Assertf("C19.atomic_replace", vx.Or(isOld, isNew), "after a fault at operation %d (crash=%v, %d bytes) %s holds %q: neither the original %q nor the new %q", vxfs.faultOp, vxfs.crash, vxfs.faultK, name, now, orig[k], want[k])
		if !fmtOK[k] || len(orig[k]) == 0 {
			vx.Assertf("C19.replaced_only_on_success", isOld, "%s was not processed successfully but changed: %q -> %q", name, orig[k], now)
		}
	}
	if !crashed {
		faultHit := vxfs.ops > vxfs.faultOp
		if faultHit {
			vx.Assertf("C19.write_failure_reported", vxFormatExit(res, err) != 0, "an I/O error at operation %d was not reported (exit 0)", vxfs.faultOp)
			// temporary files are removed again when the failure is survivable
			vx.Assertf("C19.no_stray_files", len(vxfs.files) <= vxNFiles+1, "files on disk afterwards: %d", len(vxfs.files))
		}
	}
}

// VxC19_Validate: the validate unit on the same file system; verdict against the library,
// never writes.
func VxC19_Validate() {
	orig := vxC19Setup()
	var out, errb bytes.Buffer
	v := NewValidator(&out, &errb, ValidatorOptions{Quiet: vx.Bool()})
	res, err := v.Validate(vxC19Names[:vxNFiles])
	vx.Assertf("C19.validate_runs", err == nil && res != nil, "Validate failed: %v", err)
	if err != nil || res == nil {
		return
	}
	vx.Assertf("C19.validate_covers_every_input", len(res.Files) == vxNFiles, "%d inputs given, %d results", vxNFiles, len(res.Files))
	if len(res.Files) != vxNFiles {
		return
	}
	rejected := 0
	for k := range orig {
		lib := vxLibraryAccepts(orig[k])
		fr := res.Files[k]
		cli := fr.Error == nil && fr.Valid
		vx.Assertf("C19.validate_names_input", fr.Path == vxC19Names[k], "result %d is about %q, not %q", k, fr.Path, vxC19Names[k])
		if len(orig[k]) > 0 {
			vx.Assertf("C19.validate_matches_library", cli == lib, "validate says %v for %q, the library says %v", cli, orig[k], lib)
		}
		if !cli {
			rejected++
		}
		vx.Assertf("C19.check_only_never_writes", bytes.Equal(vxfs.files[vxC19Names[k]], orig[k]), "validate modified %s", vxC19Names[k])
	}
	vx.Assertf("C19.validate_counts", res.InvalidFiles == rejected && res.ValidFiles == vxNFiles-rejected && res.TotalFiles == vxNFiles, "counts: invalid=%d valid=%d total=%d, rejected=%d", res.InvalidFiles, res.ValidFiles, res.TotalFiles, rejected)
	vx.Assertf("C19.no_stray_files", !vxfs.wrote && len(vxfs.files) == vxNFiles, "validate touched the disk")
	// zero-byte files: the library rejects the empty text, the CLI accepts the file (recorded)
	for k := range orig {
		if len(orig[k]) == 0 {
			fr := res.Files[k]
			vx.Assertf("C19.empty_file_verdict", (fr.Error == nil && fr.Valid) == vxLibraryAccepts(orig[k]), "validate accepts the zero-byte file %s, the library rejects empty input", vxC19Names[k])
		}
	}
}

// three files
func VxC19_Format3()       { vxNFiles = 3; VxC19_Format() }
func VxC19_InPlaceFault3() { vxNFiles = 3; VxC19_InPlaceFault() }
func VxC19_Validate3()     { vxNFiles = 3; VxC19_Validate() }

// VxC19_Reports: the machine-readable reports of validate name exactly the failing inputs and are
// well-formed JSON (the encoders run on the host's encoding/json through the engine's bridge).
func VxC19_Reports() {
	orig := vxC19Setup()
	var out, errb bytes.Buffer
	v := NewValidator(&out, &errb, ValidatorOptions{Quiet: true})
	names := vxC19Names[:vxNFiles]
	res, err := v.Validate(names)
	if err != nil || res == nil {
		return
	}
	vx.Assertf("C19.report_covers_every_input", len(res.Files) == len(names) && res.TotalFiles == len(names), "%d inputs given, the result describes %d (TotalFiles=%d)", len(names), len(res.Files), res.TotalFiles)
	// the failing inputs, judged independently of the validator's bookkeeping
	var failing []string
	for k := range orig {
		if len(orig[k]) > 0 && !vxLibraryAccepts(orig[k]) {
			failing = append(failing, names[k])
		}
	}
	sameSet := func(got []string) bool {
		if len(got) != len(failing) {
			return false
		}
		for _, g := range got {
			hit := false
			for _, f := range failing {
				if f == g {
					hit = true
				}
			}
			if !hit {
				return false
			}
		}
		return true
	}

	jb, jerr := output.FormatValidationJSON(res, names, false)
	vx.Assertf("C19.json_report_wellformed", jerr == nil && json.Valid(jb), "JSON report is not well-formed: %v", jerr)
	var jr struct {
		Results struct {
			Valid        bool `json:"valid"`
			InvalidFiles int  `json:"invalid_files"`
		} `json:"results"`
		Errors []struct {
			File string `json:"file"`
		} `json:"errors"`
	}
	if jerr == nil && json.Unmarshal(jb, &jr) == nil {
		var got []string
		for _, e := range jr.Errors {
			got = append(got, e.File)
		}
		vx.Assertf("C19.json_report_names_failing", sameSet(got), "JSON report names %v, failing inputs are %v", got, failing)
		vx.Assertf("C19.json_report_verdict", jr.Results.Valid == (len(failing) == 0), "JSON report valid=%v with %d failing inputs", jr.Results.Valid, len(failing))
	}

	sb, serr := output.FormatSARIF(res, "v")
	vx.Assertf("C19.sarif_report_wellformed", serr == nil && json.Valid(sb), "SARIF report is not well-formed: %v", serr)
	var sr struct {
		Version string `json:"version"`
		Runs    []struct {
			Results []struct {
				Locations []struct {
					PhysicalLocation struct {
						ArtifactLocation struct {
							URI string `json:"uri"`
						} `json:"artifactLocation"`
					} `json:"physicalLocation"`
				} `json:"locations"`
			} `json:"results"`
		} `json:"runs"`
	}
	if serr == nil && json.Unmarshal(sb, &sr) == nil {
		vx.Assertf("C19.sarif_version", sr.Version == "2.1.0" && len(sr.Runs) == 1, "SARIF version %q, %d runs", sr.Version, len(sr.Runs))
		var got []string
		if len(sr.Runs) == 1 {
			for _, r := range sr.Runs[0].Results {
				for _, l := range r.Locations {
					got = append(got, l.PhysicalLocation.ArtifactLocation.URI)
				}
			}
		}
		vx.Assertf("C19.sarif_report_names_failing", sameSet(got), "SARIF report names %v, failing inputs are %v", got, failing)
	}
}

// VxFingerprint stands in for output.generateFingerprint under the engine (SHA-256 is not
// interpreted; the fingerprint is not part of any assertion).
func VxFingerprint(path, ruleID, message string) string { return "0000000000000000" }

// ---- lint --auto-fix over the file-system model. lintRun itself is executed (cobra command
// with buffers for its writers); in the overlay of lint.go the os.* calls, the stdin probe and
// Linter.LintFiles (which reads files) are routed to the model.

var vxLintTexts = []string{
	"SELECT a\nFROM t\n",        // clean
	"select  a ,b\nFROM  t \n",  // doubled spaces, trailing blank, lower-case keyword
	"SELECT a\n\n\n\nFROM  t\n", // blank-line run, then doubled space
	"\tSELECT a\n  \tFROM t\n",  // tab and mixed indentation
	"SELECT 'p  q'  -- c  d\n",  // doubled spaces in a literal and a comment
	"SELEC a FRM",               // does not parse
	"",                          // zero bytes
}

func vxNoStdin(args []string) bool { return false }

func vxLintFiles(l *linter.Linter, names []string) linter.Result {
	res := linter.Result{TotalFiles: len(names)}
	for _, n := range names {
		d, ok := vxfs.files[n]
		var fr linter.FileResult
		if !ok {
			fr = linter.FileResult{Filename: n, Error: errors.New("no such file")}
		} else {
			fr = l.LintString(string(d), n)
		}
		res.Files = append(res.Files, fr)
		res.TotalViolations += len(fr.Violations)
	}
	return res
}

func vxLintSetup(n int) (orig [][]byte, want [][]byte) {
	vxfs = vxNewFS()
	lintMaxLength = 100
	for k := 0; k < n; k++ {
		t := vxLintTexts[vx.Choice(len(vxLintTexts))]
		vxfs.put(vxC19Names[k], []byte(t), 0644)
		orig = append(orig, []byte(t))
		fixed, _ := vxAutoFix(createLinter(), t)
		want = append(want, []byte(fixed))
		vx.Notef("file %s = %q", vxC19Names[k], t)
	}
	return orig, want
}

func vxLintCmd() (*cobra.Command, *bytes.Buffer, *bytes.Buffer) {
	c := &cobra.Command{}
	var out, errb bytes.Buffer
	c.SetOut(&out)
	c.SetErr(&errb)
	return c, &out, &errb
}

// VxC19_LintFix: no fault; --auto-fix on or off.
func VxC19_LintFix() {
	n := 1 + vx.Choice(2)
	orig, want := vxLintSetup(n)
	lintAutoFix = vx.Bool()
	lintRecursive, lintFailOnWarn, lintSecurity, outputFile = false, false, false, ""
	vx.Notef("autofix=%v", lintAutoFix)
	c, _, _ := vxLintCmd()
	_ = lintRun(c, vxC19Names[:n])
	for k := range orig {
		now := vxfs.files[vxC19Names[k]]
		if !lintAutoFix {
			vx.Assertf("C19.check_only_never_writes", bytes.Equal(now, orig[k]), "lint without --auto-fix modified %s", vxC19Names[k])
		} else {
			vx.Assertf("C19.lint_fix_writes_fixed", bytes.Equal(now, want[k]), "--auto-fix left %q in %s, the fixes give %q", now, vxC19Names[k], want[k])
		}
	}
	vx.Assertf("C19.no_stray_files", len(vxfs.files) == n, "files on disk afterwards: %d", len(vxfs.files))
}

// VxC19_LintFixFault: --auto-fix with one injected fault (error or crash, k bytes of a write).
func VxC19_LintFixFault()  { vxLintFixFault(1 + vx.Choice(2)) }
func VxC19_LintFixFault1() { vxLintFixFault(1) }

func vxLintFixFault(n int) {
	orig, want := vxLintSetup(n)
	lintAutoFix = true
	lintRecursive, lintFailOnWarn, lintSecurity, outputFile = false, false, false, ""
	maxLen := 0
	for _, w := range want {
		if len(w) > maxLen {
			maxLen = len(w)
		}
	}
	vxfs.faultOp = vx.Choice(16)
	vxfs.crash = vx.Bool()
	vxfs.faultK = vx.Choice(maxLen + 1)
	vx.Notef("faultOp=%d crash=%v k=%d", vxfs.faultOp, vxfs.crash, vxfs.faultK)
	c, _, _ := vxLintCmd()
	crashed := vxRunCrashable(func() { _ = lintRun(c, vxC19Names[:n]) })
	vx.Notef("crashed=%v ops=%d", crashed, vxfs.ops)
	for k := range orig {
		name := vxC19Names[k]
		now, exists := vxfs.files[name]
		isOld := exists && bytes.Equal(now, orig[k])
		isNew := exists && bytes.Equal(now, want[k])
		vx.Assertf("C19.atomic_replace", vx.Or(isOld, isNew), "after a fault at operation %d (crash=%v, %d bytes) %s holds %q: neither the original %q nor the fixed %q", vxfs.faultOp, vxfs.crash, vxfs.faultK, name, now, orig[k], want[k])
	}
}
