package cmd

// C01 (linting entry point): the CLI's default rule set, run through linter.LintString, returns
// on every text made of <= N words from a table of clause keywords, names and punctuation -
// including texts the parser rejects, which send the rules down their text-based fallbacks - and
// every fixable rule's Fix returns as well.

import (
	vx "github.com/ajitpratap0/GoSQLX/zzvx"
)

var vxLintWords = []string{"SELECT", "a", ",", "FROM", "t", "AS", "x", "JOIN", "u", "ON", "WHERE", "(", ")", "=", "1", "'s'", "--c", "*", "select", "\n"}

func vxLintWordsText(maxK int) string {
	k := vx.Choice(maxK + 1)
	s := ""
	for j := 0; j < k; j++ {
		if j > 0 {
			s += " "
		}
		s += vxLintWords[vx.Choice(len(vxLintWords))]
	}
	return s
}

func vxLintTotal(prefix string, maxK int) {
	text := prefix + vxLintWordsText(maxK)
	vx.Notef("text=%q", text)
	lintMaxLength = 100
	l := createLinter()
	res := l.LintString(text, "x.sql")
	vx.Notef("violations=%d", len(res.Violations))
	for _, r := range l.Rules() {
		if !r.CanAutoFix() {
			continue
		}
		fixed, err := r.Fix(text, res.Violations)
		vx.Assert("C01.lint_fix_value_or_error", err != nil || len(fixed) >= 0)
	}
	vx.Assert("C01.lint_returns", true)
}

func VxC01_Lint3()     { vxLintTotal("", 3) }
func VxC01_LintFrom3() { vxLintTotal("SELECT a FROM t ", 3) }
func VxC01_LintFrom4() { vxLintTotal("SELECT a FROM t ", 4) }
func VxC01_Lint4()     { vxLintTotal("", 4) }
