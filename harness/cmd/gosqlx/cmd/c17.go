package cmd

// C17 (the lint --auto-fix flow): lint once with the CLI's rule set, then apply every fixable
// rule's Fix in order, each with the violations of that single lint run (exactly what lintRun
// does). The result keeps the token sequence, re-linting reports nothing for any rule whose
// fix was applied, and running the flow again changes nothing. Texts are built from line slots.

import (
	"github.com/ajitpratap0/GoSQLX/pkg/linter"
	vx "github.com/ajitpratap0/GoSQLX/zzvx"
	"github.com/ajitpratap0/GoSQLX/zzvx/lintcheck"
)

var vxFixLines = []string{"", "SELECT a", "FROM  t", "select  a ,b", "\tWHERE a = 1", "  \tAND b = 2 ", "-- c  d", "x = 'p  q'  "}

func vxAutoFix(l *linter.Linter, text string) (string, []linter.Violation) {
	res := l.LintString(text, "x.sql")
	fixed := text
	for _, rule := range l.Rules() {
		if !rule.CanAutoFix() {
			continue
		}
		out, err := rule.Fix(fixed, res.Violations)
		if err != nil {
			continue
		}
		fixed = out
	}
	return fixed, res.Violations
}

func vxFixFlow(maxLines int) {
	n := vx.Choice(maxLines) + 1
	text := ""
	for k := 0; k < n; k++ {
		if k > 0 {
			text += "\n"
		}
		text += vxFixLines[vx.Choice(len(vxFixLines))]
	}
	if vx.Bool() {
		text += "\n"
	}
	vx.Notef("text=%q", text)
	lintMaxLength = 100
	l := createLinter()
	fixed, _ := vxAutoFix(l, text)
	vx.Notef("fixed=%q", fixed)
	lintcheck.Preserves("C17.flow", text, fixed)
	// re-lint: nothing left for a rule whose fix was applied
	again := l.LintString(fixed, "x.sql")
	fixable := map[string]bool{}
	for _, rule := range l.Rules() {
		if rule.CanAutoFix() {
			fixable[rule.ID()] = true
		}
	}
	for _, v := range again.Violations {
		if v.Rule == "L007" {
			continue // keyword case is fixed word by word; its own harness judges it
		}
		vx.Assertf("C17.flow.fixed_is_clean", !fixable[v.Rule], "after auto-fix %s still reports %d:%d %s", v.Rule, v.Location.Line, v.Location.Column, v.Message)
	}
	twice, _ := vxAutoFix(l, fixed)
	vx.Assertf("C17.flow.idempotent", twice == fixed, "a second auto-fix pass changes the text again: %q -> %q", fixed, twice)
}

func VxC17_FixFlow3() { vxFixFlow(3) }
func VxC17_FixFlow4() { vxFixFlow(4) }
