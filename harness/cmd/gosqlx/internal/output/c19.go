package output

// C19 (report kernel): the artifact URI a SARIF report carries for an input path names that
// same file: cleaning the URI and cleaning the path give the same location.

import (
	"path"

	vx "github.com/ajitpratap0/GoSQLX/zzvx"
)

var vxPathAlphabet = []int{'.', '/', 'a', 'b'}

func vxPath(maxN int) string {
	n := vx.Choice(maxN) + 1
	b := make([]byte, n)
	for k := range b {
		b[k] = byte(vx.PickInt(vx.Small(len(vxPathAlphabet)), vxPathAlphabet))
	}
	for k := 0; k+1 < n; k++ {
		vx.Assume(b[k] != '/' || b[k+1] != '/') // no empty path elements
	}
	return string(b)
}

func vxSarifURI(maxN int) {
	p := vxPath(maxN)
	vx.Notef("path=%q", p)
	u := normalizeURI(p)
	vx.Notef("uri=%q", u)
	vx.Assertf("C19.sarif_uri_names_input", path.Clean(u) == path.Clean(p), "input %q is reported as %q, which is a different location", p, u)
}

func VxC19_SarifURI5() { vxSarifURI(5) }
func VxC19_SarifURI7() { vxSarifURI(7) }
