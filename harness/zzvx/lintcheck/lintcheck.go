// Package lintcheck holds the C17 oracle shared by the rule harnesses: a text rewrite must
// keep the token sequence (kinds and values) except for the letter case of unquoted
// keywords, keep every comment's text, converge, and leave nothing for its own rule to report.
package lintcheck

import (
	"strings"

	"github.com/ajitpratap0/GoSQLX/pkg/linter"
	"github.com/ajitpratap0/GoSQLX/pkg/models"
	"github.com/ajitpratap0/GoSQLX/pkg/sql/tokenizer"
	vx "github.com/ajitpratap0/GoSQLX/zzvx"
)

// Input returns a symbolic text of length 0..maxN over the given alphabet.
func Input(maxN int, alphabet string) string {
	n := vx.Choice(maxN + 1)
	b := vx.Bytes(n)
	for _, c := range b {
		ok := false
		for k := 0; k < len(alphabet); k++ {
			ok = ok || c == alphabet[k]
		}
		vx.Assume(ok)
	}
	return string(b)
}

func lex(s string) ([]models.TokenWithSpan, []models.Comment, bool) {
	tk, _ := tokenizer.New()
	toks, err := tk.Tokenize([]byte(s))
	if err != nil {
		return nil, nil, false
	}
	return toks, tk.Comments, true
}

func isKeywordTok(t models.Token) bool {
	return t.Type != models.TokenTypeIdentifier && t.Word != nil && t.Quote == 0
}

// Preserves asserts that out reads as the same token sequence as in.
func Preserves(id string, in, out string) {
	ti, ci, ok := lex(in)
	if !ok {
		return // not SQL text: nothing is claimed
	}
	to, co, ok := lex(out)
	vx.Assertf(id+".still_tokenizes", ok, "the rewritten text %q no longer tokenizes (input %q)", out, in)
	if !ok {
		return
	}
	vx.Assertf(id+".same_token_count", len(ti) == len(to), "input %q has %d tokens, rewritten %q has %d", in, len(ti), out, len(to))
	if len(ti) == len(to) {
		for k := range ti {
			a, b := ti[k].Token, to[k].Token
			vx.Assertf(id+".same_kind", a.Type == b.Type, "token %d changes kind %d -> %d (input %q, output %q)", k, int(a.Type), int(b.Type), in, out)
			if isKeywordTok(a) {
				vx.Assertf(id+".same_value", strings.EqualFold(a.Value, b.Value), "keyword token %d changes %q -> %q (input %q, output %q)", k, a.Value, b.Value, in, out)
			} else {
				vx.Assertf(id+".same_value", a.Value == b.Value, "token %d changes value %q -> %q (input %q, output %q)", k, a.Value, b.Value, in, out)
			}
		}
	}
	vx.Assertf(id+".same_comment_count", len(ci) == len(co), "input %q has %d comments, rewritten %q has %d", in, len(ci), out, len(co))
	if len(ci) == len(co) {
		for k := range ci {
			vx.Assertf(id+".same_comment", strings.TrimRight(ci[k].Text, " \t\r") == strings.TrimRight(co[k].Text, " \t\r"), "comment %d changes %q -> %q", k, ci[k].Text, co[k].Text)
		}
	}
}

// Rule runs the whole C17 contract for one auto-fixing rule on one input.
func Rule(id string, r linter.Rule, in string) (fixed string, before []linter.Violation) {
	vx.Notef("rule=%s in=%q", r.ID(), in)
	ctx := linter.NewContext(in, "x.sql")
	if toks, _, ok := lex(in); ok {
		ctx.WithTokens(toks)
	}
	before, err := r.Check(ctx)
	vx.Assertf(id+".check_total", err == nil, "Check failed: %v", err)
	nlines := len(ctx.Lines)
	for _, v := range before {
		vx.Assertf(id+".location_exists", v.Location.Line >= 1 && v.Location.Line <= nlines && v.Location.Column >= 1 && v.Location.Column <= len(ctx.Lines[v.Location.Line-1])+1,
			"violation at %d:%d outside the text (%d lines)", v.Location.Line, v.Location.Column, nlines)
	}
	out, err := r.Fix(in, before)
	vx.Assertf(id+".fix_total", err == nil, "Fix failed: %v", err)
	vx.Notef("out=%q violations=%d", out, len(before))
	Preserves(id, in, out)
	if !r.CanAutoFix() {
		vx.Assertf(id+".no_fix_no_change", out == in, "a rule without auto-fix rewrote %q to %q", in, out)
		return out, before
	}
	out2, _ := r.Fix(out, nil)
	vx.Assertf(id+".idempotent", out2 == out, "fixing twice differs: %q -> %q -> %q", in, out, out2)
	ctx2 := linter.NewContext(out, "x.sql")
	if toks, _, ok := lex(out); ok {
		ctx2.WithTokens(toks)
	}
	after, _ := r.Check(ctx2)
	vx.Assertf(id+".fixed_is_clean", len(after) == 0, "after Fix the rule still reports %d violations (input %q, output %q)", len(after), in, out)
	return out, before
}
