// Package zzvx is the harness API. Under the symbolic engine (gosx) every function
// here is intercepted by name and its body ignored; compiled natively, the bodies
// read a tape of concrete values (a solver model), which is how counterexamples
// are replayed against the real build and how the engine itself is validated.
package zzvx

import (
	"encoding/json"
	"fmt"
	"os"
	"reflect"
	"sort"
	"strings"
)

var (
	tape     []uint64
	tapePos  int
	Failures []string
	Notes    []string
	loaded   bool
)

// LoadTape sets the tape explicitly (used by replay tests).
func LoadTape(t []uint64) {
	tape = t
	tapePos = 0
	loaded = true
	Failures = nil
	Notes = nil
	frozen = nil
}

func load() {
	if loaded {
		return
	}
	loaded = true
	if p := os.Getenv("VX_TAPE"); p != "" {
		b, err := os.ReadFile(p)
		if err == nil {
			var v struct {
				Tape []uint64 `json:"tape"`
			}
			if json.Unmarshal(b, &v) == nil {
				tape = v.Tape
			}
		}
	}
}

func next() uint64 {
	load()
	if tapePos < len(tape) {
		v := tape[tapePos]
		tapePos++
		return v
	}
	tapePos++
	return 0
}

func Byte() byte     { return byte(next()) }
func Bool() bool     { return next()&1 != 0 }
func Int() int       { return int(next()) }
func Int64() int64   { return int64(next()) }
func Int32() int32   { return int32(next()) }
func Uint16() uint16 { return uint16(next()) }
func Uint32() uint32 { return uint32(next()) }
func Uint64() uint64 { return next() }
func Rune() rune     { return rune(int32(next())) }

// Small returns a symbolic int in [0,n) that stays symbolic in the engine.
func Small(n int) int { return int(uint16(next())) }

// Choice returns an int in [0,n); the engine forks over the feasible values.
func Choice(n int) int { return int(uint16(next())) }

// Bytes returns n fresh symbolic bytes.
func Bytes(n int) []byte {
	b := make([]byte, n)
	for i := range b {
		b[i] = byte(next())
	}
	return b
}

// BytesSymLen returns a byte slice of symbolic length 0..max whose content is irrelevant.
func BytesSymLen(max int) []byte {
	n := int(uint32(next()))
	if n > max {
		n = max
	}
	return make([]byte, n)
}

// WatchReentryAll is an engine-side monitor (no native effect).
func WatchReentryAll(recvType, field, id string) {}

// ReentryLimit adds to WatchReentryAll: a re-entry is only allowed when the outer activation saw field < limit.
func ReentryLimit(limit int, id string) {}

// AssumeViolated is set when a native run contradicts an assumption: the tape is
// then not a valid input of the harness (engine defect if it came from the engine).
var AssumeViolated bool

func Assume(c bool) {
	if !c {
		AssumeViolated = true
		panic(assumeFail{})
	}
}

type assumeFail struct{}

func Assert(id string, c bool) {
	if !c {
		Failures = append(Failures, id)
	}
}

func Assertf(id string, c bool, format string, args ...any) {
	if !c {
		Failures = append(Failures, id+": "+fmt.Sprintf(format, args...))
	}
}

func Fail(id string, msg string) { Failures = append(Failures, id+": "+msg) }

func Note(s string) { Notes = append(Notes, s) }

// Notef records an observable output; the engine renders it under the model of the
// path (or counterexample), the native build renders it directly.
func Notef(format string, args ...any) { Notes = append(Notes, fmt.Sprintf(format, args...)) }

// RaceMonitor turns the engine's happens-before monitor on for the goroutines started from here
// (scheduler mode); violations are reported under id. Natively a no-op.
func RaceMonitor(id string) {}

// Or / And: boolean connectives that do not fork the symbolic execution.
func Or(a, b bool) bool                    { return a || b }
func And(a, b bool) bool                   { return a && b }
func PickStr(sel int, tab []string) string { return tab[sel] }
func PickInt(sel int, tab []int) int       { return tab[sel] }
func Conc(s string) string                 { return s }
func ConcInt(n int) int                    { return n }
func PoolGC()                              {}
func MapOrderReverse(bool)                 {}

type frozenRec struct {
	v    any
	what string
	dump string
}

var frozen []frozenRec

// Freeze: from now until Unfreeze nothing reachable from v may be written.
// (engine: write monitor; native: deep snapshot compared at Unfreeze.)
func Freeze(v any, what string) { frozen = append(frozen, frozenRec{v, what, Dump(v)}) }

func Unfreeze() {
	for _, f := range frozen {
		if now := Dump(f.v); now != f.dump {
			id := f.what
			if k := strings.IndexByte(id, ' '); k > 0 {
				id = id[:k]
			}
			Failures = append(Failures, id+": "+f.what+" changed from "+f.dump+" to "+now)
		}
	}
	frozen = nil
}
func Engine() bool                      { return false }
func WatchReentry(fn, field, id string) {}
func Steps() int                        { return 0 }

// DeepEqual is structural equality following pointers; nil and empty slices / maps are
// equal and capacity is ignored (same relation as the engine's).
func DeepEqual(a, b any) bool {
	type pair struct{ x, y uintptr }
	seen := map[pair]bool{}
	var eq func(x, y reflect.Value) bool
	eq = func(x, y reflect.Value) bool {
		if !x.IsValid() || !y.IsValid() {
			return x.IsValid() == y.IsValid()
		}
		if x.Type() != y.Type() {
			return false
		}
		switch x.Kind() {
		case reflect.Interface:
			if x.IsNil() || y.IsNil() {
				return x.IsNil() == y.IsNil()
			}
			return eq(x.Elem(), y.Elem())
		case reflect.Ptr:
			if x.IsNil() || y.IsNil() {
				return x.IsNil() == y.IsNil()
			}
			k := pair{x.Pointer(), y.Pointer()}
			if k.x == k.y || seen[k] {
				return true
			}
			seen[k] = true
			return eq(x.Elem(), y.Elem())
		case reflect.Struct:
			for i := 0; i < x.NumField(); i++ {
				if !eq(x.Field(i), y.Field(i)) {
					return false
				}
			}
			return true
		case reflect.Slice, reflect.Array:
			if x.Len() != y.Len() {
				return false
			}
			for i := 0; i < x.Len(); i++ {
				if !eq(x.Index(i), y.Index(i)) {
					return false
				}
			}
			return true
		case reflect.Map:
			if x.Len() != y.Len() {
				return false
			}
			it := x.MapRange()
			for it.Next() {
				v := y.MapIndex(it.Key())
				if !v.IsValid() || !eq(it.Value(), v) {
					return false
				}
			}
			return true
		case reflect.Func:
			return x.IsNil() == y.IsNil()
		case reflect.Bool:
			return x.Bool() == y.Bool()
		case reflect.Int, reflect.Int8, reflect.Int16, reflect.Int32, reflect.Int64:
			return x.Int() == y.Int()
		case reflect.Uint, reflect.Uint8, reflect.Uint16, reflect.Uint32, reflect.Uint64, reflect.Uintptr:
			return x.Uint() == y.Uint()
		case reflect.Float32, reflect.Float64:
			return x.Float() == y.Float()
		case reflect.String:
			return x.String() == y.String()
		}
		return true
	}
	return eq(reflect.ValueOf(a), reflect.ValueOf(b))
}

func SameObject(a, b any) bool {
	va, vb := reflect.ValueOf(a), reflect.ValueOf(b)
	if !va.IsValid() || !vb.IsValid() || va.Kind() != reflect.Ptr || vb.Kind() != reflect.Ptr {
		return false
	}
	return va.Pointer() == vb.Pointer() && va.Pointer() != 0
}

func IsNilPtr(a any) bool {
	if a == nil {
		return true
	}
	v := reflect.ValueOf(a)
	switch v.Kind() {
	case reflect.Ptr, reflect.Slice, reflect.Map:
		return v.IsNil()
	}
	return false
}

// Reach lists the pointers stored in root's fields (transitively) whose type implements the
// interface given as a typed nil pointer, e.g. Reach(tree, (*ast.Node)(nil)).
func Reach(root any, ifacePtr any) []any {
	it := reflect.TypeOf(ifacePtr).Elem()
	var out []any
	seen := map[uintptr]bool{}
	var walk func(v reflect.Value)
	walk = func(v reflect.Value) {
		if !v.IsValid() {
			return
		}
		switch v.Kind() {
		case reflect.Interface:
			if !v.IsNil() {
				walk(v.Elem())
			}
		case reflect.Ptr:
			if v.IsNil() {
				return
			}
			if seen[v.Pointer()] {
				return
			}
			seen[v.Pointer()] = true
			if v.Type().Implements(it) && v.CanInterface() {
				out = append(out, v.Interface())
			} else if v.Type().Implements(it) {
				out = append(out, reflect.NewAt(v.Type().Elem(), v.UnsafePointer()).Interface())
			}
			walk(v.Elem())
		case reflect.Struct:
			for k := 0; k < v.NumField(); k++ {
				walk(v.Field(k))
			}
		case reflect.Slice, reflect.Array:
			for k := 0; k < v.Len(); k++ {
				walk(v.Index(k))
			}
		case reflect.Map:
			it := v.MapRange()
			for it.Next() {
				walk(it.Value())
			}
		}
	}
	walk(reflect.ValueOf(root))
	return out
}

var fillProtos []reflect.Value

// FillOneOf fills one top-level field of *p; interface fields receive a fresh clone of the
// first prototype (a *T) implementing them, slices get two elements.
func FillOneOf(p any, protos ...any) int {
	fillProtos = nil
	for _, x := range protos {
		fillProtos = append(fillProtos, reflect.ValueOf(x))
	}
	defer func() { fillProtos = nil }()
	return FillOne(p, nil)
}

// Fill fills *p with arbitrary content, same tape order as the engine.
func Fill(p any, depth int, sentinel ...any) {
	v := reflect.ValueOf(p).Elem()
	fillSentinel = reflect.Value{}
	if len(sentinel) > 0 && sentinel[0] != nil {
		fillSentinel = reflect.ValueOf(sentinel[0])
	}
	v.Set(gen(v.Type(), depth))
}

var fillSentinel reflect.Value

func setField(f reflect.Value, g reflect.Value) {
	if f.CanSet() {
		f.Set(g)
	} else {
		reflect.NewAt(f.Type(), f.Addr().UnsafePointer()).Elem().Set(g)
	}
}

func genFull(t reflect.Type, d int) reflect.Value {
	out := reflect.New(t).Elem()
	if len(fillProtos) > 0 && t.Kind() == reflect.Interface {
		if t.NumMethod() == 0 {
			return out
		}
		for _, p := range fillProtos {
			if p.Type().Implements(t) {
				c := reflect.New(p.Type().Elem())
				c.Elem().Set(p.Elem())
				out.Set(c)
				return out
			}
		}
		return out
	}
	switch t.Kind() {
	case reflect.Bool:
		out.SetBool(next()&1 != 0)
	case reflect.Int, reflect.Int8, reflect.Int16, reflect.Int32, reflect.Int64:
		out.SetInt(int64(next()))
	case reflect.Uint, reflect.Uint8, reflect.Uint16, reflect.Uint32, reflect.Uint64, reflect.Uintptr:
		out.SetUint(next())
	case reflect.String:
		out.SetString(string([]byte{byte(next())}))
	case reflect.Ptr:
		if d > 0 {
			p := reflect.New(t.Elem())
			p.Elem().Set(genFull(t.Elem(), d-1))
			out.Set(p)
		}
	case reflect.Struct:
		for k := 0; k < t.NumField(); k++ {
			setField(out.Field(k), genFull(t.Field(k).Type, d))
		}
	case reflect.Slice:
		if d > 0 && len(fillProtos) > 0 && t.Elem().Kind() == reflect.Ptr && d-1 <= 0 {
			// no nil elements in slices of pointers
		} else if d > 0 && len(fillProtos) > 0 {
			s := reflect.MakeSlice(t, 2, 2)
			s.Index(0).Set(genFull(t.Elem(), d-1))
			b := genFull(t.Elem(), d-1)
			if t.Elem().Kind() == reflect.Slice && b.Len() > 0 {
				// rows of different widths: the second row is one element wider than the first
				b = reflect.Append(b, genFull(t.Elem().Elem(), d-2))
			}
			s.Index(1).Set(b)
			out.Set(s)
		} else if d > 0 {
			s := reflect.MakeSlice(t, 1, 1)
			s.Index(0).Set(genFull(t.Elem(), d-1))
			out.Set(s)
		}
	case reflect.Array:
		for k := 0; k < t.Len(); k++ {
			out.Index(k).Set(genFull(t.Elem(), d))
		}
	case reflect.Interface:
		if fillSentinel.IsValid() && fillSentinel.Type().Implements(t) {
			out.Set(fillSentinel)
		}
	case reflect.Map:
		out.Set(reflect.MakeMap(t))
	}
	return out
}

// FillAll gives every field of *p non-zero content (same tape order as the engine).
func FillAll(p any, sentinel any) {
	fillSentinel = reflect.Value{}
	if sentinel != nil {
		fillSentinel = reflect.ValueOf(sentinel)
	}
	v := reflect.ValueOf(p).Elem()
	v.Set(genFull(v.Type(), 2))
}

// FillOne fills exactly one top-level field of *p (symbolic choice) and returns its index.
func FillOne(p any, sentinel any) int {
	fillSentinel = reflect.Value{}
	if sentinel != nil {
		fillSentinel = reflect.ValueOf(sentinel)
	}
	v := reflect.ValueOf(p).Elem()
	if v.Kind() != reflect.Struct || v.NumField() == 0 {
		return -1
	}
	k := int(uint16(next()))
	d := 2
	if len(fillProtos) > 0 {
		d = 3
	}
	setField(v.Field(k), genFull(v.Type().Field(k).Type, d))
	return k
}

func choice(n int) int { return int(uint16(next())) }

func gen(t reflect.Type, d int) reflect.Value {
	out := reflect.New(t).Elem()
	switch t.Kind() {
	case reflect.Bool:
		out.SetBool(next()&1 != 0)
	case reflect.Int, reflect.Int8, reflect.Int16, reflect.Int32, reflect.Int64:
		out.SetInt(int64(next()))
	case reflect.Uint, reflect.Uint8, reflect.Uint16, reflect.Uint32, reflect.Uint64, reflect.Uintptr:
		out.SetUint(next())
	case reflect.String:
		if choice(2) != 0 {
			out.SetString(string([]byte{byte(next())}))
		}
	case reflect.Ptr:
		if d > 0 && choice(2) != 0 {
			p := reflect.New(t.Elem())
			p.Elem().Set(gen(t.Elem(), d-1))
			out.Set(p)
		}
	case reflect.Struct:
		for k := 0; k < t.NumField(); k++ {
			f := out.Field(k)
			g := gen(t.Field(k).Type, d)
			if f.CanSet() {
				f.Set(g)
			} else {
				reflect.NewAt(f.Type(), f.Addr().UnsafePointer()).Elem().Set(g)
			}
		}
	case reflect.Slice:
		if d > 0 && choice(2) != 0 {
			s := reflect.MakeSlice(t, 1, 1)
			s.Index(0).Set(gen(t.Elem(), d-1))
			out.Set(s)
		}
	case reflect.Array:
		for k := 0; k < t.Len(); k++ {
			out.Index(k).Set(gen(t.Elem(), d))
		}
	case reflect.Interface:
		if fillSentinel.IsValid() && fillSentinel.Type().Implements(t) && choice(2) == 1 {
			out.Set(fillSentinel)
		}
	case reflect.Map:
		if d > 0 && choice(2) != 0 {
			out.Set(reflect.MakeMap(t))
		}
	}
	return out
}

// Dump renders a value canonically (pointers followed, no addresses).
func Dump(v any) string {
	var sb strings.Builder
	seen := map[uintptr]int{}
	var w func(v reflect.Value, d int)
	w = func(v reflect.Value, d int) {
		if d > 40 {
			sb.WriteString("…")
			return
		}
		if !v.IsValid() {
			sb.WriteString("nil")
			return
		}
		switch v.Kind() {
		case reflect.Interface:
			if v.IsNil() {
				sb.WriteString("nil")
				return
			}
			e := v.Elem()
			sb.WriteString(shortType(e.Type()))
			sb.WriteString(":")
			w(e, d+1)
		case reflect.Ptr:
			if v.IsNil() {
				sb.WriteString("nil")
				return
			}
			if n, ok := seen[v.Pointer()]; ok {
				fmt.Fprintf(&sb, "^%d", n)
				return
			}
			seen[v.Pointer()] = len(seen)
			sb.WriteString("&")
			w(v.Elem(), d+1)
		case reflect.Struct:
			sb.WriteString("{")
			for k := 0; k < v.NumField(); k++ {
				if k > 0 {
					sb.WriteString(" ")
				}
				w(v.Field(k), d+1)
			}
			sb.WriteString("}")
		case reflect.Array:
			sb.WriteString("[")
			for k := 0; k < v.Len(); k++ {
				if k > 0 {
					sb.WriteString(" ")
				}
				w(v.Index(k), d+1)
			}
			sb.WriteString("]")
		case reflect.Slice:
			if v.IsNil() {
				sb.WriteString("[]")
				return
			}
			sb.WriteString("[")
			for k := 0; k < v.Len(); k++ {
				if k > 0 {
					sb.WriteString(" ")
				}
				w(v.Index(k), d+1)
			}
			sb.WriteString("]")
		case reflect.Map:
			var keys []string
			vals := map[string]reflect.Value{}
			it := v.MapRange()
			for it.Next() {
				ks := fmt.Sprint(it.Key())
				keys = append(keys, ks)
				vals[ks] = it.Value()
			}
			sort.Strings(keys)
			sb.WriteString("map[")
			for k, ks := range keys {
				if k > 0 {
					sb.WriteString(" ")
				}
				sb.WriteString(ks + ":")
				w(vals[ks], d+1)
			}
			sb.WriteString("]")
		case reflect.String:
			fmt.Fprintf(&sb, "%q", v.String())
		case reflect.Func:
			sb.WriteString("func")
		case reflect.Bool:
			fmt.Fprint(&sb, v.Bool())
		case reflect.Int, reflect.Int8, reflect.Int16, reflect.Int32, reflect.Int64:
			fmt.Fprint(&sb, v.Int())
		case reflect.Uint, reflect.Uint8, reflect.Uint16, reflect.Uint32, reflect.Uint64, reflect.Uintptr:
			fmt.Fprint(&sb, v.Uint())
		case reflect.Float32, reflect.Float64:
			fmt.Fprint(&sb, v.Float())
		default:
			fmt.Fprintf(&sb, "<%s>", v.Kind())
		}
	}
	rv := reflect.ValueOf(v)
	if rv.IsValid() {
		// mimic the engine: top-level interface wrapper
		sb.WriteString(shortType(rv.Type()))
		sb.WriteString(":")
	}
	w(rv, 0)
	return sb.String()
}

func shortType(t reflect.Type) string {
	s := t.String()
	return s
}

// Run executes a harness natively under a tape and reports assertion failures and
// escaping panics in the same vocabulary as the engine.
func Run(h func()) (failures []string, panicked string, assumeViolated bool) {
	Failures = nil
	AssumeViolated = false
	func() {
		defer func() {
			if r := recover(); r != nil {
				if _, ok := r.(assumeFail); ok {
					return
				}
				panicked = fmt.Sprint(r)
			}
		}()
		h()
	}()
	return Failures, panicked, AssumeViolated
}
